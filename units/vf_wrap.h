// Helpers for the extern "C" marshalling wrappers.  VF_IN(k, expr) snapshots an input into a named local so that
// a CBMC counterexample trace carries the entry values under a stable name (vf_in<k>); natively it is a no-op.
#ifndef VF_WRAP_H
#define VF_WRAP_H
#ifdef VF_NATIVE
#define VF_IN(k, expr) ((void)0)
#else
#define VF_IN(k, expr) uint64_t vf_in##k = (uint64_t)(expr); (void)vf_in##k
#endif
#define VF_IN4(k, p) VF_IN(k##0, (p)[0]); VF_IN(k##1, (p)[1]); VF_IN(k##2, (p)[2]); VF_IN(k##3, (p)[3])
#define VF_IN8(k, p) VF_IN4(k, p); VF_IN(k##4, (p)[4]); VF_IN(k##5, (p)[5]); VF_IN(k##6, (p)[6]); VF_IN(k##7, (p)[7])
#endif
