// independent reference arithmetic for the native oracles (unsigned __int128, no code from /repo)
#ifndef VF_REF_H
#define VF_REF_H
#include <cstdint>
typedef unsigned __int128 ref_u128;
static const uint64_t REF_P = 0xFFFFFFFF00000001ULL;
static inline uint64_t ref_canon(uint64_t x) { return x % REF_P; }
static inline uint64_t ref_add(uint64_t a, uint64_t b) { return (uint64_t)(((ref_u128)(a % REF_P) + (b % REF_P)) % REF_P); }
static inline uint64_t ref_sub(uint64_t a, uint64_t b) { return (uint64_t)(((ref_u128)(a % REF_P) + REF_P - (b % REF_P)) % REF_P); }
static inline uint64_t ref_mul(uint64_t a, uint64_t b) { return (uint64_t)(((ref_u128)(a % REF_P) * (b % REF_P)) % REF_P); }
static inline uint64_t ref_neg(uint64_t a) { return ref_sub(0, a); }
static inline uint64_t ref_pow(uint64_t b, uint64_t e) { uint64_t r = 1; b %= REF_P; while (e) { if (e & 1) r = ref_mul(r, b); b = ref_mul(b, b); e >>= 1; } return r; }
static inline uint64_t ref_inv(uint64_t a) { return ref_pow(a, REF_P - 2); }
#endif
