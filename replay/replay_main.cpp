// Native replay: calls the property's oracle (props/<P>/oracle.cpp), which runs the *real* library function through the
// same extern "C" wrappers the proof uses and evaluates the postcondition with independent reference arithmetic.
// exit 1 = violation confirmed on the real code, 0 = real code behaves on this input, 3 = no oracle for this unit.
#include <cstdint>
#include <cstdio>
#include <cstdlib>
#include <cstring>
#include <map>
#include <string>
typedef std::map<std::string, uint64_t> vf_inputs;
int vf_replay(const std::string &unit, vf_inputs &in);
int main(int argc, char **argv)
{
    if (argc < 2) { fprintf(stderr, "usage: replay <unit> key=value ...\n"); return 3; }
    vf_inputs in;
    for (int i = 2; i < argc; i++) {
        char *eq = strchr(argv[i], '=');
        if (!eq) continue;
        in[std::string(argv[i], eq - argv[i])] = strtoull(eq + 1, NULL, 10);
    }
    int r = vf_replay(argv[1], in);
    printf("%s\n", r == 1 ? "CONFIRMED: the real code violates the postcondition on this input" : r == 0 ? "NOT-REPRODUCED: the real code satisfies the postcondition on this input" : "NO-ORACLE");
    return r;
}
