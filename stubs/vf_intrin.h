/* L0 trusted table: C semantics of every AVX2 / AVX-512 intrinsic used by /repo/src.
 * One body per intrinsic, written from the Intel Intrinsics Guide pseudo code.
 * The bodies are named vf_mm*; <immintrin.h> (stub) maps the real names onto them for CBMC.
 * tools/intrin_guard.cpp includes this file natively next to the real <immintrin.h> and
 * compares every body with the hardware instruction (guard, not proof).
 * Lane i of a vector is v[i] (bits 64i+63 .. 64i).
 * NOTE: no conditional operator anywhere in this file: CBMC 6.11's C++ front end types `c ? 0xFF..UL : 0` as int. */
#ifndef VF_INTRIN_H
#define VF_INTRIN_H

typedef unsigned long vf_u64;
typedef unsigned int vf_u32;
typedef long vf_s64;
typedef int vf_s32;

typedef struct { vf_u64 v[4]; } vf_m256i;
typedef struct { vf_u64 v[4]; } vf_m256;
typedef struct { vf_u64 v[4]; } vf_m256d;
typedef struct { vf_u64 v[8]; } vf_m512i;
typedef struct { vf_u64 v[8]; } vf_m512;
typedef struct { vf_u64 v[8]; } vf_m512d;
typedef unsigned char vf_mmask8;
typedef unsigned short vf_mmask16;

/* 32x32->64 unsigned product: exact by default; a unit may define VF_MUL32_ABSTRACT and supply
 * vf_mul32 itself (uninterpreted function with the range axiom, see contracts/spec.h). */
#ifdef VF_MUL32_ABSTRACT
#ifdef __cplusplus
extern "C"
#endif
vf_u64 vf_mul32(vf_u32 a, vf_u32 b);
#else
static inline vf_u64 vf_mul32(vf_u32 a, vf_u32 b) { return (vf_u64)a * (vf_u64)b; }
#endif

#define VF_LANES4(i) for (int i = 0; i < 4; i++)
#define VF_LANES8(i) for (int i = 0; i < 8; i++)

/* ---------------------------------------------------------------- AVX2 */
static inline vf_m256i vf_mm256_set_epi64x(long long e3, long long e2, long long e1, long long e0)
{ vf_m256i r; r.v[0] = (vf_u64)e0; r.v[1] = (vf_u64)e1; r.v[2] = (vf_u64)e2; r.v[3] = (vf_u64)e3; return r; }
static inline vf_m256i vf_mm256_set1_epi64x(long long a)
{ vf_m256i r; r.v[0] = (vf_u64)a; r.v[1] = (vf_u64)a; r.v[2] = (vf_u64)a; r.v[3] = (vf_u64)a; return r; }
static inline vf_m256i vf_mm256_loadu_si256(const vf_m256i *p)
{ vf_m256i r; r.v[0] = p->v[0]; r.v[1] = p->v[1]; r.v[2] = p->v[2]; r.v[3] = p->v[3]; return r; }
/* aligned variants: alignment requirement NOT modelled (see DESIGN C18) */
static inline vf_m256i vf_mm256_load_si256(const vf_m256i *p) { return vf_mm256_loadu_si256(p); }
static inline void vf_mm256_storeu_si256(vf_m256i *p, vf_m256i a)
{ p->v[0] = a.v[0]; p->v[1] = a.v[1]; p->v[2] = a.v[2]; p->v[3] = a.v[3]; }
static inline void vf_mm256_store_si256(vf_m256i *p, vf_m256i a) { vf_mm256_storeu_si256(p, a); }

static inline vf_m256i vf_mm256_add_epi64(vf_m256i a, vf_m256i b)
{ vf_m256i r; r.v[0] = a.v[0] + b.v[0]; r.v[1] = a.v[1] + b.v[1]; r.v[2] = a.v[2] + b.v[2]; r.v[3] = a.v[3] + b.v[3]; return r; }
static inline vf_m256i vf_mm256_sub_epi64(vf_m256i a, vf_m256i b)
{ vf_m256i r; r.v[0] = a.v[0] - b.v[0]; r.v[1] = a.v[1] - b.v[1]; r.v[2] = a.v[2] - b.v[2]; r.v[3] = a.v[3] - b.v[3]; return r; }
static inline vf_m256i vf_mm256_and_si256(vf_m256i a, vf_m256i b)
{ vf_m256i r; r.v[0] = a.v[0] & b.v[0]; r.v[1] = a.v[1] & b.v[1]; r.v[2] = a.v[2] & b.v[2]; r.v[3] = a.v[3] & b.v[3]; return r; }
static inline vf_m256i vf_mm256_andnot_si256(vf_m256i a, vf_m256i b)
{ vf_m256i r; r.v[0] = ~a.v[0] & b.v[0]; r.v[1] = ~a.v[1] & b.v[1]; r.v[2] = ~a.v[2] & b.v[2]; r.v[3] = ~a.v[3] & b.v[3]; return r; }
static inline vf_m256i vf_mm256_xor_si256(vf_m256i a, vf_m256i b)
{ vf_m256i r; r.v[0] = a.v[0] ^ b.v[0]; r.v[1] = a.v[1] ^ b.v[1]; r.v[2] = a.v[2] ^ b.v[2]; r.v[3] = a.v[3] ^ b.v[3]; return r; }
static inline vf_u64 vf_srl64(vf_u64 x, int n) { vf_u64 r = 0; if (n >= 0 && n <= 63) r = x >> n; return r; }
static inline vf_u64 vf_sll64(vf_u64 x, int n) { vf_u64 r = 0; if (n >= 0 && n <= 63) r = x << n; return r; }
static inline vf_m256i vf_mm256_srli_epi64(vf_m256i a, int n)
{ vf_m256i r; r.v[0] = vf_srl64(a.v[0], n); r.v[1] = vf_srl64(a.v[1], n); r.v[2] = vf_srl64(a.v[2], n); r.v[3] = vf_srl64(a.v[3], n); return r; }
static inline vf_m256i vf_mm256_slli_epi64(vf_m256i a, int n)
{ vf_m256i r; r.v[0] = vf_sll64(a.v[0], n); r.v[1] = vf_sll64(a.v[1], n); r.v[2] = vf_sll64(a.v[2], n); r.v[3] = vf_sll64(a.v[3], n); return r; }
static inline vf_u64 vf_gt64s(vf_u64 a, vf_u64 b) { vf_u64 r = 0; if ((vf_s64)a > (vf_s64)b) r = ~(vf_u64)0; return r; }
static inline vf_m256i vf_mm256_cmpgt_epi64(vf_m256i a, vf_m256i b)
{ vf_m256i r; r.v[0] = vf_gt64s(a.v[0], b.v[0]); r.v[1] = vf_gt64s(a.v[1], b.v[1]); r.v[2] = vf_gt64s(a.v[2], b.v[2]); r.v[3] = vf_gt64s(a.v[3], b.v[3]); return r; }
static inline vf_u64 vf_gt32s(vf_u64 a, vf_u64 b)
{
  vf_u64 lo = 0, hi = 0;
  if ((vf_s32)(vf_u32)a > (vf_s32)(vf_u32)b) lo = 0xFFFFFFFFUL;
  if ((vf_s32)(vf_u32)(a >> 32) > (vf_s32)(vf_u32)(b >> 32)) hi = 0xFFFFFFFF00000000UL;
  return hi | lo;
}
static inline vf_m256i vf_mm256_cmpgt_epi32(vf_m256i a, vf_m256i b)
{ vf_m256i r; r.v[0] = vf_gt32s(a.v[0], b.v[0]); r.v[1] = vf_gt32s(a.v[1], b.v[1]); r.v[2] = vf_gt32s(a.v[2], b.v[2]); r.v[3] = vf_gt32s(a.v[3], b.v[3]); return r; }
static inline vf_m256i vf_mm256_mul_epu32(vf_m256i a, vf_m256i b)
{ vf_m256i r; r.v[0] = vf_mul32((vf_u32)a.v[0], (vf_u32)b.v[0]); r.v[1] = vf_mul32((vf_u32)a.v[1], (vf_u32)b.v[1]);
  r.v[2] = vf_mul32((vf_u32)a.v[2], (vf_u32)b.v[2]); r.v[3] = vf_mul32((vf_u32)a.v[3], (vf_u32)b.v[3]); return r; }
static inline vf_u64 vf_hdup(vf_u64 x) { return (x & 0xFFFFFFFF00000000UL) | (x >> 32); }
static inline vf_u64 vf_ldup(vf_u64 x) { return (x << 32) | (x & 0xFFFFFFFFUL); }
static inline vf_m256 vf_mm256_movehdup_ps(vf_m256 a)
{ vf_m256 r; r.v[0] = vf_hdup(a.v[0]); r.v[1] = vf_hdup(a.v[1]); r.v[2] = vf_hdup(a.v[2]); r.v[3] = vf_hdup(a.v[3]); return r; }
static inline vf_m256 vf_mm256_moveldup_ps(vf_m256 a)
{ vf_m256 r; r.v[0] = vf_ldup(a.v[0]); r.v[1] = vf_ldup(a.v[1]); r.v[2] = vf_ldup(a.v[2]); r.v[3] = vf_ldup(a.v[3]); return r; }
static inline vf_m256 vf_mm256_castsi256_ps(vf_m256i a)
{ vf_m256 r; r.v[0] = a.v[0]; r.v[1] = a.v[1]; r.v[2] = a.v[2]; r.v[3] = a.v[3]; return r; }
static inline vf_m256i vf_mm256_castps_si256(vf_m256 a)
{ vf_m256i r; r.v[0] = a.v[0]; r.v[1] = a.v[1]; r.v[2] = a.v[2]; r.v[3] = a.v[3]; return r; }
static inline vf_m256d vf_mm256_castsi256_pd(vf_m256i a)
{ vf_m256d r; r.v[0] = a.v[0]; r.v[1] = a.v[1]; r.v[2] = a.v[2]; r.v[3] = a.v[3]; return r; }
static inline vf_m256i vf_mm256_castpd_si256(vf_m256d a)
{ vf_m256i r; r.v[0] = a.v[0]; r.v[1] = a.v[1]; r.v[2] = a.v[2]; r.v[3] = a.v[3]; return r; }
static inline vf_u64 vf_blend32(vf_u64 a, vf_u64 b, int lo_from_b, int hi_from_b)
{ vf_u64 l = a, h = a; if (lo_from_b) l = b; if (hi_from_b) h = b; return (l & 0xFFFFFFFFUL) | (h & 0xFFFFFFFF00000000UL); }
static inline vf_m256i vf_mm256_blend_epi32(vf_m256i a, vf_m256i b, int imm)
{ vf_m256i r;
  r.v[0] = vf_blend32(a.v[0], b.v[0], imm & 1, imm & 2);
  r.v[1] = vf_blend32(a.v[1], b.v[1], imm & 4, imm & 8);
  r.v[2] = vf_blend32(a.v[2], b.v[2], imm & 16, imm & 32);
  r.v[3] = vf_blend32(a.v[3], b.v[3], imm & 64, imm & 128);
  return r; }
static inline vf_m256i vf_mm256_permute2f128_si256(vf_m256i a, vf_m256i b, int imm)
{ vf_m256i r; int s;
  s = imm & 3;
  if (s == 0) { r.v[0] = a.v[0]; r.v[1] = a.v[1]; } else if (s == 1) { r.v[0] = a.v[2]; r.v[1] = a.v[3]; }
  else if (s == 2) { r.v[0] = b.v[0]; r.v[1] = b.v[1]; } else { r.v[0] = b.v[2]; r.v[1] = b.v[3]; }
  if (imm & 8) { r.v[0] = 0; r.v[1] = 0; }
  s = (imm >> 4) & 3;
  if (s == 0) { r.v[2] = a.v[0]; r.v[3] = a.v[1]; } else if (s == 1) { r.v[2] = a.v[2]; r.v[3] = a.v[3]; }
  else if (s == 2) { r.v[2] = b.v[0]; r.v[3] = b.v[1]; } else { r.v[2] = b.v[2]; r.v[3] = b.v[3]; }
  if (imm & 128) { r.v[2] = 0; r.v[3] = 0; }
  return r; }
static inline vf_m256d vf_mm256_unpacklo_pd(vf_m256d a, vf_m256d b)
{ vf_m256d r; r.v[0] = a.v[0]; r.v[1] = b.v[0]; r.v[2] = a.v[2]; r.v[3] = b.v[2]; return r; }
static inline vf_m256d vf_mm256_unpackhi_pd(vf_m256d a, vf_m256d b)
{ vf_m256d r; r.v[0] = a.v[1]; r.v[1] = b.v[1]; r.v[2] = a.v[3]; r.v[3] = b.v[3]; return r; }

/* ---------------------------------------------------------------- AVX-512F */
static inline vf_m512i vf_mm512_set_epi64(long long e7, long long e6, long long e5, long long e4, long long e3, long long e2, long long e1, long long e0)
{ vf_m512i r; r.v[0] = (vf_u64)e0; r.v[1] = (vf_u64)e1; r.v[2] = (vf_u64)e2; r.v[3] = (vf_u64)e3;
  r.v[4] = (vf_u64)e4; r.v[5] = (vf_u64)e5; r.v[6] = (vf_u64)e6; r.v[7] = (vf_u64)e7; return r; }
static inline vf_m512i vf_mm512_set4_epi64(long long d, long long c, long long b, long long a)
{ vf_m512i r; r.v[0] = (vf_u64)a; r.v[1] = (vf_u64)b; r.v[2] = (vf_u64)c; r.v[3] = (vf_u64)d;
  r.v[4] = (vf_u64)a; r.v[5] = (vf_u64)b; r.v[6] = (vf_u64)c; r.v[7] = (vf_u64)d; return r; }
static inline vf_m512i vf_mm512_loadu_si512(const void *p_)
{ const vf_m512i *p = (const vf_m512i *)p_; vf_m512i r;
  r.v[0] = p->v[0]; r.v[1] = p->v[1]; r.v[2] = p->v[2]; r.v[3] = p->v[3];
  r.v[4] = p->v[4]; r.v[5] = p->v[5]; r.v[6] = p->v[6]; r.v[7] = p->v[7]; return r; }
static inline vf_m512i vf_mm512_load_si512(const void *p) { return vf_mm512_loadu_si512(p); }
static inline void vf_mm512_storeu_si512(void *p_, vf_m512i a)
{ vf_m512i *p = (vf_m512i *)p_;
  p->v[0] = a.v[0]; p->v[1] = a.v[1]; p->v[2] = a.v[2]; p->v[3] = a.v[3];
  p->v[4] = a.v[4]; p->v[5] = a.v[5]; p->v[6] = a.v[6]; p->v[7] = a.v[7]; }
static inline void vf_mm512_store_si512(void *p, vf_m512i a) { vf_mm512_storeu_si512(p, a); }

#define VF_BIN8(name, expr) \
static inline vf_m512i name(vf_m512i a, vf_m512i b) { vf_m512i r; \
  { vf_u64 x = a.v[0], y = b.v[0]; r.v[0] = (expr); } { vf_u64 x = a.v[1], y = b.v[1]; r.v[1] = (expr); } \
  { vf_u64 x = a.v[2], y = b.v[2]; r.v[2] = (expr); } { vf_u64 x = a.v[3], y = b.v[3]; r.v[3] = (expr); } \
  { vf_u64 x = a.v[4], y = b.v[4]; r.v[4] = (expr); } { vf_u64 x = a.v[5], y = b.v[5]; r.v[5] = (expr); } \
  { vf_u64 x = a.v[6], y = b.v[6]; r.v[6] = (expr); } { vf_u64 x = a.v[7], y = b.v[7]; r.v[7] = (expr); } \
  return r; }
VF_BIN8(vf_mm512_add_epi64, x + y)
VF_BIN8(vf_mm512_sub_epi64, x - y)
VF_BIN8(vf_mm512_and_si512, x & y)
VF_BIN8(vf_mm512_mul_epu32, vf_mul32((vf_u32)x, (vf_u32)y))
static inline vf_m512i vf_mm512_srli_epi64(vf_m512i a, unsigned int n)
{ vf_m512i r; int m = 64; if (n <= 63) m = (int)n;
  r.v[0] = vf_srl64(a.v[0], m); r.v[1] = vf_srl64(a.v[1], m); r.v[2] = vf_srl64(a.v[2], m); r.v[3] = vf_srl64(a.v[3], m);
  r.v[4] = vf_srl64(a.v[4], m); r.v[5] = vf_srl64(a.v[5], m); r.v[6] = vf_srl64(a.v[6], m); r.v[7] = vf_srl64(a.v[7], m); return r; }
static inline vf_m512i vf_mm512_slli_epi64(vf_m512i a, unsigned int n)
{ vf_m512i r; int m = 64; if (n <= 63) m = (int)n;
  r.v[0] = vf_sll64(a.v[0], m); r.v[1] = vf_sll64(a.v[1], m); r.v[2] = vf_sll64(a.v[2], m); r.v[3] = vf_sll64(a.v[3], m);
  r.v[4] = vf_sll64(a.v[4], m); r.v[5] = vf_sll64(a.v[5], m); r.v[6] = vf_sll64(a.v[6], m); r.v[7] = vf_sll64(a.v[7], m); return r; }
static inline vf_mmask8 vf_mm512_cmpgt_epu64_mask(vf_m512i a, vf_m512i b)
{ vf_mmask8 k = 0;
  if (a.v[0] > b.v[0]) k |= 1; if (a.v[1] > b.v[1]) k |= 2; if (a.v[2] > b.v[2]) k |= 4; if (a.v[3] > b.v[3]) k |= 8;
  if (a.v[4] > b.v[4]) k |= 16; if (a.v[5] > b.v[5]) k |= 32; if (a.v[6] > b.v[6]) k |= 64; if (a.v[7] > b.v[7]) k |= 128;
  return k; }
static inline vf_mmask8 vf_mm512_cmpge_epu64_mask(vf_m512i a, vf_m512i b)
{ vf_mmask8 k = 0;
  if (a.v[0] >= b.v[0]) k |= 1; if (a.v[1] >= b.v[1]) k |= 2; if (a.v[2] >= b.v[2]) k |= 4; if (a.v[3] >= b.v[3]) k |= 8;
  if (a.v[4] >= b.v[4]) k |= 16; if (a.v[5] >= b.v[5]) k |= 32; if (a.v[6] >= b.v[6]) k |= 64; if (a.v[7] >= b.v[7]) k |= 128;
  return k; }
static inline vf_m512i vf_mm512_mask_add_epi64(vf_m512i src, vf_mmask8 k, vf_m512i a, vf_m512i b)
{ vf_m512i r;
  r = src;
  if (k & 1) r.v[0] = a.v[0] + b.v[0];   if (k & 2) r.v[1] = a.v[1] + b.v[1];
  if (k & 4) r.v[2] = a.v[2] + b.v[2];   if (k & 8) r.v[3] = a.v[3] + b.v[3];
  if (k & 16) r.v[4] = a.v[4] + b.v[4];  if (k & 32) r.v[5] = a.v[5] + b.v[5];
  if (k & 64) r.v[6] = a.v[6] + b.v[6];  if (k & 128) r.v[7] = a.v[7] + b.v[7];
  return r; }
static inline vf_m512i vf_mm512_mask_blend_epi32(vf_mmask16 k, vf_m512i a, vf_m512i b)
{ vf_m512i r;
  r.v[0] = vf_blend32(a.v[0], b.v[0], k & 1, k & 2);       r.v[1] = vf_blend32(a.v[1], b.v[1], k & 4, k & 8);
  r.v[2] = vf_blend32(a.v[2], b.v[2], k & 16, k & 32);     r.v[3] = vf_blend32(a.v[3], b.v[3], k & 64, k & 128);
  r.v[4] = vf_blend32(a.v[4], b.v[4], k & 256, k & 512);   r.v[5] = vf_blend32(a.v[5], b.v[5], k & 1024, k & 2048);
  r.v[6] = vf_blend32(a.v[6], b.v[6], k & 4096, k & 8192); r.v[7] = vf_blend32(a.v[7], b.v[7], k & 16384, k & 32768);
  return r; }
static inline vf_u64 vf_px2(vf_m512i a, vf_u64 idx, vf_m512i b)
{ int o = (int)(idx & 7); vf_u64 r = a.v[o]; if (idx & 8) r = b.v[o]; return r; }
static inline vf_m512i vf_mm512_permutex2var_epi64(vf_m512i a, vf_m512i idx, vf_m512i b)
{ vf_m512i r;
  r.v[0] = vf_px2(a, idx.v[0], b); r.v[1] = vf_px2(a, idx.v[1], b); r.v[2] = vf_px2(a, idx.v[2], b); r.v[3] = vf_px2(a, idx.v[3], b);
  r.v[4] = vf_px2(a, idx.v[4], b); r.v[5] = vf_px2(a, idx.v[5], b); r.v[6] = vf_px2(a, idx.v[6], b); r.v[7] = vf_px2(a, idx.v[7], b);
  return r; }
static inline vf_m512d vf_mm512_unpacklo_pd(vf_m512d a, vf_m512d b)
{ vf_m512d r; r.v[0] = a.v[0]; r.v[1] = b.v[0]; r.v[2] = a.v[2]; r.v[3] = b.v[2]; r.v[4] = a.v[4]; r.v[5] = b.v[4]; r.v[6] = a.v[6]; r.v[7] = b.v[6]; return r; }
static inline vf_m512d vf_mm512_unpackhi_pd(vf_m512d a, vf_m512d b)
{ vf_m512d r; r.v[0] = a.v[1]; r.v[1] = b.v[1]; r.v[2] = a.v[3]; r.v[3] = b.v[3]; r.v[4] = a.v[5]; r.v[5] = b.v[5]; r.v[6] = a.v[7]; r.v[7] = b.v[7]; return r; }
static inline vf_m512 vf_mm512_movehdup_ps(vf_m512 a)
{ vf_m512 r; r.v[0] = vf_hdup(a.v[0]); r.v[1] = vf_hdup(a.v[1]); r.v[2] = vf_hdup(a.v[2]); r.v[3] = vf_hdup(a.v[3]);
  r.v[4] = vf_hdup(a.v[4]); r.v[5] = vf_hdup(a.v[5]); r.v[6] = vf_hdup(a.v[6]); r.v[7] = vf_hdup(a.v[7]); return r; }
static inline vf_m512 vf_mm512_moveldup_ps(vf_m512 a)
{ vf_m512 r; r.v[0] = vf_ldup(a.v[0]); r.v[1] = vf_ldup(a.v[1]); r.v[2] = vf_ldup(a.v[2]); r.v[3] = vf_ldup(a.v[3]);
  r.v[4] = vf_ldup(a.v[4]); r.v[5] = vf_ldup(a.v[5]); r.v[6] = vf_ldup(a.v[6]); r.v[7] = vf_ldup(a.v[7]); return r; }
#define VF_CAST8(name, TO, FROM) static inline TO name(FROM a) { TO r; \
  r.v[0] = a.v[0]; r.v[1] = a.v[1]; r.v[2] = a.v[2]; r.v[3] = a.v[3]; r.v[4] = a.v[4]; r.v[5] = a.v[5]; r.v[6] = a.v[6]; r.v[7] = a.v[7]; return r; }
VF_CAST8(vf_mm512_castsi512_ps, vf_m512, vf_m512i)
VF_CAST8(vf_mm512_castps_si512, vf_m512i, vf_m512)
VF_CAST8(vf_mm512_castsi512_pd, vf_m512d, vf_m512i)
VF_CAST8(vf_mm512_castpd_si512, vf_m512i, vf_m512d)

#endif
