#ifndef VF_STDINT_H
#define VF_STDINT_H
typedef unsigned char uint8_t;
typedef unsigned short uint16_t;
typedef unsigned int uint32_t;
typedef unsigned long uint64_t;
typedef signed char int8_t;
typedef short int16_t;
typedef int int32_t;
typedef long int64_t;
typedef unsigned long size_t;
typedef unsigned long uintptr_t;
typedef unsigned long u_int64_t;
#define UINT64_MAX 0xFFFFFFFFFFFFFFFFUL
#define INT64_MAX 0x7FFFFFFFFFFFFFFFL
#define INT64_MIN (-INT64_MAX-1)
#define INT32_MAX 0x7FFFFFFF
#define INT32_MIN (-INT32_MAX-1)
#ifndef NULL
#ifdef __cplusplus
#define NULL 0L
#else
#define NULL ((void*)0)
#endif
#endif
#endif
