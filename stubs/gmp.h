#ifndef VF_GMP_H
#define VF_GMP_H
#endif
