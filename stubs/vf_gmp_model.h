/* E-gmp: assumed contracts on GMP (from the GMP manual), used only by the C15 units.
 * mpz_class is bound to a 128-bit two's-complement integer: exact for every value of magnitude < 2^126.
 *   operator+,-,comparison : exact integer arithmetic
 *   operator% (mpz % p)    : gmpxx operator% = mpz_tdiv_r: the unique r with |r| < p, r of the sign of the dividend (or 0) and
 *                            r congruent to the dividend.  For the modulus p the congruence is stated linearly (no divider
 *                            reaches the solver): |r| == T(|x|) + k*p, T the reduction target of the 128-bit magnitude
 *                            (congruent to it by C01 lemma_reduce_congruence).  AXIOM(gmp-tdiv_r).  Rule E-gmp rewrites
 *                            `X % (uint64_t)GOLDILOCKS_PRIME` into vf_mpz_tdiv_r_p(X).
 *   get_ui()               : least significant 64 bits of the ABSOLUTE value        (mpz_get_ui)
 *   get_si()               : value if it fits a signed long, else least significant part with the sign of op (mpz_get_si,
 *                            implemented as in GMP 6: op>0 -> low & LONG_MAX ; op<0 -> -1 - ((low-1) & LONG_MAX))
 * The extraction rule E-gmp rewrites X.get_ui() / X.get_si() into vf_mpz_get_ui(X) / vf_mpz_get_si(X). */
#ifndef VF_GMP_MODEL_H
#define VF_GMP_MODEL_H
typedef __int128 mpz_class;
static inline unsigned long vf_mpz_get_ui(__int128 x)
{ unsigned __int128 m; if (x < 0) m = (unsigned __int128)(-x); else m = (unsigned __int128)x; return (unsigned long)m; }
static inline long vf_mpz_get_si(__int128 x)
{
  unsigned __int128 m; long r = 0;
  if (x > 0) { m = (unsigned __int128)x; r = (long)((unsigned long)m & 0x7FFFFFFFFFFFFFFFUL); }
  if (x < 0) { m = (unsigned __int128)(-x); r = -1L - (long)((((unsigned long)m) - 1UL) & 0x7FFFFFFFFFFFFFFFUL); }
  return r;
}
extern "C" unsigned long vf_nondet_u64(void);
static inline __int128 vf_mpz_tdiv_r_p(__int128 x)
{
  unsigned __int128 m; if (x < 0) m = (unsigned __int128)(-x); else m = (unsigned __int128)x;
  unsigned long hi = (unsigned long)(m >> 64), lo = (unsigned long)m;
  __int128 hl = (__int128)(hi & 0xFFFFFFFFUL), hh = (__int128)(hi >> 32), P = (__int128)0xFFFFFFFF00000001UL;
  __int128 T = (__int128)lo + ((hl << 32) - hl) - hh;       /* in [-(2^32-1), 2^65-2^33] */
  __int128 r = (__int128)vf_nondet_u64();
  __CPROVER_assume(r < P);                                                   /* AXIOM(gmp-tdiv_r): |r| < p            */
  __CPROVER_assume(r == T + P || r == T || r == T - P || r == T - 2 * P);    /* AXIOM(gmp-tdiv_r): |r| congruent |x|  */
  if (x < 0) r = -r;                                                          /* sign of the dividend                  */
  return r;
}
#endif
