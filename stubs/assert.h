#ifndef VF_CASSERT
#define VF_CASSERT
#define assert(e) __CPROVER_assert((e), "assert: " #e)
#endif
