#ifndef VF_OMP_H
#define VF_OMP_H
/* OpenMP runtime: sequential semantics (pragmas are ignored by CBMC). */
#ifdef __cplusplus
extern "C" {
#endif
int omp_get_max_threads(void);
int omp_get_num_threads(void);
int omp_get_thread_num(void);
void omp_set_num_threads(int);
#ifdef __cplusplus
}
#endif
#endif
