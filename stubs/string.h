#ifndef VF_CSTRING
#define VF_CSTRING
#include <stdint.h>
extern "C" {
void *memcpy(void *dst, const void *src, size_t n);
void *memset(void *dst, int c, size_t n);
}
namespace std { using ::memcpy; using ::memset; }
#endif
