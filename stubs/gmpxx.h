#ifndef VF_GMPXX_H
#define VF_GMPXX_H
#include <string>
#ifndef VF_GMP_MODEL
struct mpz_class { int opaque; };
#else
#include "vf_gmp_model.h"
#endif
#endif
