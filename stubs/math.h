#ifndef VF_MATH_H
#define VF_MATH_H
extern "C" { double floor(double); double log2(double); double ceil(double); }
#endif
