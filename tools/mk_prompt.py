#!/usr/bin/env python3
"""writes the prompt for a mutation sub-agent (property text + its scratch worktree only)"""
import json, sys
props = {json.loads(l)['id']: json.loads(l) for l in open('/verif/properties.jsonl')}
tmpl = '''You are helping test a verification effort for the C++ library 0xPolygonHermez/goldilocks (Goldilocks prime field p = 2^64 - 2^32 + 1, cubic extension, AVX2/AVX512 kernels, NTT, Poseidon). You have your own scratch git worktree of the library at WT (work ONLY there; do not read or touch /repo or /verif, and do not look at any other /tmp/wt_* directory).

The library is supposed to satisfy this semantic property:

  Title: TITLE
  Statement: STATEMENT
  Quantified over: QUANT

Your task: produce NN DIFFERENT small source changes ("seeded defects") to the library under WT/src, each of which BREAKS this property while the library still compiles and the existing test suite still passes. The test suite is built and run with:  cd WT && make testcpu && ./testcpu   (30 gtest tests; takes a minute or two; all must still pass with your change applied).EXTRA

Requirements for each change:
 - It must be realistic (the kind of slip a maintainer could make: a wrong constant, a dropped correction step, a comparison off by one, a swapped operand, a wrong index/stride, a missed special case), small (a few lines), and must need something SPECIFIC to manifest - an unusual input value (e.g. non-canonical representations in [p, 2^64), carries that happen with probability 2^-32, boundary sizes), a particular aliasing pattern, a particular overload/variant nobody calls in the tests, a multi-step sequence - not something ordinary use or the existing tests would expose at once.
 - For each change write a small standalone demonstration program (C++ file with a main(), compiled against the worktree sources, e.g.  g++ -std=c++17 -O2 -mavx2 -fopenmp -IWT/src demo.cpp WT/src/*.cpp -lgmp -o demo ) that exits non-zero / prints FAIL with the change applied and exits 0 / prints PASS on the unmodified library. The demo should compute the expected value independently (e.g. with unsigned __int128 arithmetic), not by calling other library code that your change also affects.
 - Verify all of it yourself: (1) unmodified tree: demo passes; (2) with the change: library compiles, ./testcpu passes all 30 tests, demo fails.

Deliverables: create directory WT/seeded/ and for change k (k = 1..NN) write:
   WT/seeded/m<k>/patch.diff   (output of `git diff` for the change to src/, applicable with `git apply` at the repo root)
   WT/seeded/m<k>/demo.cpp     (the demonstration)
   WT/seeded/m<k>/README.txt   (one paragraph: what was changed, what input/shape/sequence is needed for it to manifest, the exact commands you ran and their outcome)
Leave the worktree's src/ UNMODIFIED at the end (git checkout -- src), keeping only the seeded/ directory. Remove build outputs (testcpu, demo binaries) when done. In your final message list the changes in one line each.'''
pid, n = sys.argv[1], sys.argv[2]
extra = sys.argv[3] if len(sys.argv) > 3 else ''
p = props[pid]
print(tmpl.replace('WT', '/tmp/wt_' + pid).replace('TITLE', p['title']).replace('STATEMENT', p['statement']).replace('QUANT', p['quantifier']['text']).replace('NN', n).replace('EXTRA', (' ' + extra) if extra else ''))
