#!/usr/bin/env python3
"""usage: process_seeded.py <PROP> [--props P1,P2] [--flags "..."]
For every /var/tmp/seeded_stage/<PROP>/m*: confirm (scratch worktree), run the checks with the patch applied to /repo,
and keep confirmed ones as /verif/seeded/<PROP>-<m>/ {patch.diff, demo.cpp, README.txt, meta.json}."""
import json, os, subprocess, sys, shutil, argparse
ap = argparse.ArgumentParser(); ap.add_argument('prop'); ap.add_argument('--props'); ap.add_argument('--flags', default=''); ap.add_argument('--only')
a = ap.parse_args()
stage = '/var/tmp/seeded_stage/' + a.prop
props = (a.props or a.prop).split(',')
meta_all = []
for m in sorted(os.listdir(stage)):
    if a.only and m != a.only: continue
    d = os.path.join(stage, m)
    if not os.path.exists(os.path.join(d, 'patch.diff')): continue
    tag = '%s_%s' % (a.prop, m)
    out = subprocess.run(['/verif/tools/confirm_seeded.sh', d, tag] + a.flags.split(), stdout=subprocess.PIPE, stderr=subprocess.STDOUT).stdout.decode()
    try:
        conf = json.loads(out.strip().splitlines()[-1])
    except Exception:
        conf = dict(error=out[-500:])
    ok = conf.get('demo_unmodified') == 'pass' and conf.get('applies') == 'yes' and conf.get('tests_with_change') == 'pass' and conf.get('demo_with_change') == 'fail'
    det = subprocess.run(['/verif/tools/try_seeded.sh', d] + props, stdout=subprocess.PIPE, stderr=subprocess.STDOUT).stdout.decode() if conf.get('applies') == 'yes' else 'not run'
    detected = 'violations=' in det and any(('violations=%d' % k) not in l for l in det.splitlines() for k in [0] if 'violations=' in l)
    readme = open(os.path.join(d, 'README.txt')).read() if os.path.exists(os.path.join(d, 'README.txt')) else ''
    meta = dict(id='%s-%s' % (a.prop, m), property=a.prop, confirmed=ok, confirmation=conf, needs_to_manifest=readme.strip()[:1500],
                ran=['tools/confirm_seeded.sh (scratch worktree: demo unmodified, patch applies, 30-test suite with change, demo with change)',
                     'tools/try_seeded.sh (patch applied to /repo, ./check %s, then git checkout -- .)' % ' '.join(props)],
                checks_run=props, check_output=det.strip(), detected=bool(detected))
    print(json.dumps(dict(id=meta['id'], confirmed=ok, detected=meta['detected'], conf=conf)))
    print(det)
    if ok:
        dst = '/verif/seeded/%s-%s' % (a.prop, m)
        os.makedirs(dst, exist_ok=True)
        for f in ('patch.diff', 'demo.cpp', 'README.txt', 'demo_args'):
            if os.path.exists(os.path.join(d, f)): shutil.copy(os.path.join(d, f), dst)
        json.dump(meta, open(os.path.join(dst, 'meta.json'), 'w'), indent=1)
