#!/usr/bin/env python3
"""Regenerates /verif/MANIFEST.json from the props/*/units.py tables (MANIFEST_ENTRY of each) and tools/not_applicable.json."""
import json, os, sys
V = os.path.dirname(os.path.dirname(os.path.abspath(__file__)))
sys.path.insert(0, V)
from vf import driver
props = [json.loads(l) for l in open(os.path.join(V, 'properties.jsonl'))]
na = json.load(open(os.path.join(V, 'tools', 'not_applicable.json')))
checks, napp = [], []
for p in props:
    pid = p['id']
    if os.path.exists(os.path.join(V, 'props', pid, 'units.py')) and pid not in na:
        m = driver.load_prop(pid)
        e = m.MANIFEST_ENTRY
        checks.append(dict(property_id=pid, quick_cmd='./check %s --tier quick' % pid, thorough_cmd='./check %s --tier thorough' % pid,
                           evidence_file='/verif/evidence/%s.json' % pid, replay_cmd_template='./check %s --replay {path}' % pid,
                           engine='cbmc-contracts',
                           level_claimed=dict(category=e['category'], text=e['text'], design_ref=e.get('design_ref', 'DESIGN.md section 3 ' + pid)),
                           level_note=e['note'], technique=e['technique']))
    else:
        napp.append(dict(property_id=pid, reason=na.get(pid, 'check not built yet (work in progress; see DESIGN.md section 3)')))
man = dict(version=1,
           setup_cmd='./tools/setup.sh',
           hooks=dict(guard='GOLDILOCKS_VERIF', enable='no hooks in /repo: contracts, wrappers and loop specs live in /verif and are applied to a filtered scratch copy of /repo/src on every run',
                      baseline_off_cmd='cd /repo && make testcpu && ./testcpu', source_commits=[], add_only=True),
           engines=[dict(name='cbmc-contracts', path='/verif/check', serves_properties=[c['property_id'] for c in checks],
                         kind_free_text='contract-based deductive verification: CBMC 6.11 code contracts (goto-instrument --dfcc, cadical) on the real functions of /repo/src after a named-rule extraction filter; Lean 4 + Mathlib for the algebraic lemmas')],
           checks=checks, not_applicable=napp,
           notes='See DESIGN.md. Exit codes of ./check: 0 proved, 1 VIOLATION, 2 machinery problem (timeout / extraction rule did not fire) - never reported as a violation.')
json.dump(man, open(os.path.join(V, 'MANIFEST.json'), 'w'), indent=1)
print('checks:', [c['property_id'] for c in checks])
