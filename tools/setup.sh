#!/bin/bash
# offline setup: nothing to fetch; checks rebuild everything from /repo on each run.  Verifies the tools are present.
set -e
cd "$(dirname "$0")/.."
for t in cbmc goto-cc goto-instrument g++ python3; do command -v $t >/dev/null || { echo "missing $t"; exit 1; }; done
python3 -c "import sys; sys.path.insert(0,'.'); from vf import driver, extract, asmx86"
echo setup ok
