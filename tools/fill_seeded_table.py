#!/usr/bin/env python3
"""fills the section A.8 table of DESIGN.md from seeded/*/meta.json (between the SEEDED markers)"""
import json, os, re, glob
V = os.path.dirname(os.path.dirname(os.path.abspath(__file__)))
rows = ['| id | what the change does / needs to manifest | checks run | outcome |', '|----|------------------------------------------|------------|---------|']
nd = 0; n = 0
for d in sorted(glob.glob(os.path.join(V, 'seeded', '*'))):
    mp = os.path.join(d, 'meta.json')
    if not os.path.exists(mp):
        continue
    m = json.load(open(mp)); n += 1
    need = re.sub(r'\s+', ' ', m.get('needs_to_manifest', ''))[:230]
    out = m.get('check_output', '')
    units = sorted(set(re.findall(r'unit=([^\s\]]+)', out)))[:3]
    if m.get('detected'):
        nd += 1
        res = 'caught: ' + ', '.join(units)
    elif 'MACHINERY' in out:
        res = 'NOT decided (exit 2): ' + re.sub(r'\s+', ' ', out.split('MACHINERY:')[1])[:90]
    else:
        res = 'MISSED (function not under contract / aliasing pattern not covered)'
    rows.append('| %s | %s | %s | %s |' % (m['id'], need.replace('|', '/'), ' '.join(m.get('checks_run', [])), res))
rows.append('')
rows.append('%d of %d confirmed seeded changes are reported as violations by the checks listed.' % (nd, n))
p = os.path.join(V, 'DESIGN.md')
s = open(p).read()
block = '<!-- SEEDED:BEGIN -->\n' + '\n'.join(rows) + '\n<!-- SEEDED:END -->'
if 'SEEDED_TABLE' in s:
    s = s.replace('SEEDED_TABLE', block)
else:
    s = re.sub(r'<!-- SEEDED:BEGIN -->.*?<!-- SEEDED:END -->', lambda m_: block, s, flags=re.S)
open(p, 'w').write(s)
print(nd, 'of', n)
