#!/bin/bash
# usage: confirm_seeded.sh <dir with patch.diff demo.cpp> <tag> [extra g++ flags]
# Confirms in a scratch worktree of /repo (current HEAD): demo passes unmodified, patch applies and compiles,
# the 30-test suite still passes with it, demo fails with it.  Prints one JSON line.  Removes the worktree.
d=$1; tag=$2; shift 2; extra="$@"
wt=/tmp/cw_$tag
git -C /repo worktree add -q --detach $wt HEAD || exit 2
res() { echo "{\"tag\":\"$tag\",\"demo_unmodified\":\"$1\",\"applies\":\"$2\",\"tests_with_change\":\"$3\",\"demo_with_change\":\"$4\"}"; }
build_demo() { g++ -std=c++17 -O2 -mavx2 $extra -fopenmp -I$wt/src $d/demo.cpp $wt/src/*.cpp -lgmp -o $wt/demo_bin >/dev/null 2>$wt/demo_build.log; }
a=NA; b=NA; c=NA; e=NA
# optional file demo_args next to the demo: its arguments (@WT@ = the scratch worktree)
args=""; [ -f $d/demo_args ] && args=$(sed "s#@WT@#$wt#g" $d/demo_args)
if build_demo; then (cd $wt && timeout 300 ./demo_bin $args >/dev/null 2>&1) && a=pass || a=fail; else a=build-error; fi
if git -C $wt apply $d/patch.diff 2>/dev/null; then b=yes
  if (cd $wt && make testcpu >/dev/null 2>&1 && timeout 900 ./testcpu >$wt/test.log 2>&1); then c=pass; else c=fail; fi
  if build_demo; then (cd $wt && timeout 300 ./demo_bin $args >/dev/null 2>&1) && e=pass || e=fail; else e=build-error; fi
else b=no; fi
res $a $b $c $e
git -C /repo worktree remove --force $wt
