#!/bin/bash
# usage: try_seeded.sh <dir with patch.diff> <property> [more properties]
# Runs ./check for the given properties against a scratch worktree of /repo (current HEAD) with the patch applied
# (VF_REPO points the driver at it; evidence and replay files of these runs go to a scratch dir, not /verif/evidence).
# Equivalent to `git -C /repo apply; ./check; git -C /repo checkout -- .` but does not disturb /repo.
d=$1; shift
tag=$(basename $(dirname $d))_$(basename $d)_$$
wt=/tmp/ts_$tag
git -C /repo worktree add -q --detach $wt HEAD || exit 2
trap "git -C /repo worktree remove --force $wt; rm -rf /var/tmp/ts_ev_$tag" EXIT
git -C $wt apply $d/patch.diff || { echo "patch does not apply"; exit 2; }
cd /verif
for p in "$@"; do
  out=$(VF_REPO=$wt VF_EVIDENCE_DIR=/var/tmp/ts_ev_$tag VF_REPLAY_DIR=/var/tmp/ts_ev_$tag/replay ./check $p 2>&1); rc=$?
  nv=$(echo "$out" | grep -c '^VIOLATION')
  echo "  $p: exit=$rc violations=$nv $(echo "$out" | grep '^VIOLATION' | head -3 | sed 's/.*\[\(.*\)\].*/[\1]/' | tr '\n' ' ') $(echo "$out" | grep '^MACHINERY' | head -2 | cut -c1-160)"
done
