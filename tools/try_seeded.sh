#!/bin/bash
# usage: try_seeded.sh <dir with patch.diff> <property> [more properties]
# applies the patch to /repo, runs ./check for the given properties, restores /repo.  Prints detected/missed per property.
d=$1; shift
cd /verif
git -C /repo apply $d/patch.diff || { echo "patch does not apply"; exit 2; }
for p in "$@"; do
  out=$(./check $p 2>&1); rc=$?
  nv=$(echo "$out" | grep -c '^VIOLATION')
  echo "  $p: exit=$rc violations=$nv $(echo "$out" | grep '^VIOLATION' | head -2 | sed 's/.*\[\(.*\)\].*/[\1]/' | tr '\n' ' ') $(echo "$out" | grep '^MACHINERY' | head -2 | cut -c1-160)"
done
git -C /repo checkout -- .
