"""Algebraic layer: runs `lean` on lemmas/Goldilocks.lean (Lean 4 + Mathlib) and reports the theorems a property relies on."""
import hashlib, json, os, re, subprocess, time
VERIF = os.path.dirname(os.path.dirname(os.path.abspath(__file__)))
LEAN_FILE = os.path.join(VERIF, 'lemmas', 'Goldilocks.lean')


def check_lemmas(names):
    """returns the `extra` dict fragment for driver.check_property: obligations/discharged count the named theorems"""
    src = open(LEAN_FILE).read()
    declared = set(re.findall(r'^theorem (\w+)', src, re.M))
    missing = [n for n in names if n not in declared]
    if missing:
        return dict(machinery=['Lean lemma(s) not found in lemmas/Goldilocks.lean: %s' % missing], obligations=0, discharged=0)
    if re.search(r'\b(sorry|admit|axiom)\b', re.sub(r'/-.*?-/', '', src, flags=re.S)):
        return dict(machinery=['lemmas/Goldilocks.lean contains sorry/admit/axiom'], obligations=0, discharged=0)
    t0 = time.time()
    try:
        p = subprocess.run(['lean', LEAN_FILE], cwd='/var/tmp', stdout=subprocess.PIPE, stderr=subprocess.STDOUT, timeout=900)
        out, rc = p.stdout.decode('utf-8', 'replace'), p.returncode
    except subprocess.TimeoutExpired:
        return dict(machinery=['lean timed out on lemmas/Goldilocks.lean'], obligations=0, discharged=0)
    secs = round(time.time() - t0, 1)
    ok = rc == 0 and 'error' not in out
    lem = [dict(theorem='Goldilocks.' + n, file='lemmas/Goldilocks.lean', checker='lean 4.33.0 + Mathlib', accepted=ok, seconds=secs) for n in names]
    if not ok:
        # a lemma that stopped checking is reported as a violation of the properties that rest on it, without a failing input
        return dict(lemmas=lem, obligations=len(names), discharged=0, lean_output=out[-2000:], lean_failed=True)
    return dict(lemmas=lem, obligations=len(names), discharged=len(names),
                samples=[dict(obligation='Goldilocks.' + names[0], description='Lean theorem accepted')] if names else [])
