"""Extraction filter E: /repo/src -> scratch copy the verifier reads.

Every rule is named, must fire an expected number of times, and is recorded in a report
(rule, file, count, bytes removed/inserted).  A rule that does not fire as expected raises
ExtractError -> the driver exits 2 ("extraction broke"), never a violation.
"""
import hashlib
import os
import re
import shutil

from . import asmx86


class ExtractError(Exception):
    pass


# ------------------------------------------------------------------ lexical helpers

def mask_noncode(src):
    """return a copy of src where comments, string and char literals are replaced by spaces
    (same length, newlines kept), so brace/paren matching can ignore them"""
    out = list(src)
    i, n = 0, len(src)
    while i < n:
        c = src[i]
        if c == '/' and i + 1 < n and src[i + 1] == '/':
            j = src.find('\n', i)
            j = n if j < 0 else j
            for k in range(i, j):
                out[k] = ' '
            i = j
        elif c == '/' and i + 1 < n and src[i + 1] == '*':
            j = src.find('*/', i + 2)
            j = n if j < 0 else j + 2
            for k in range(i, j):
                if out[k] != '\n':
                    out[k] = ' '
            i = j
        elif c == '"' or c == "'":
            q = c
            j = i + 1
            while j < n and src[j] != q:
                if src[j] == '\\':
                    j += 1
                j += 1
            for k in range(i + 1, min(j, n)):
                if out[k] != '\n':
                    out[k] = ' '
            i = j + 1
        else:
            i += 1
    return ''.join(out)


def match_close(masked, i, open_c, close_c):
    """masked[i] == open_c ; returns index of the matching close_c"""
    assert masked[i] == open_c, (masked[i - 20:i + 20], open_c)
    d = 0
    for j in range(i, len(masked)):
        if masked[j] == open_c:
            d += 1
        elif masked[j] == close_c:
            d -= 1
            if d == 0:
                return j
    raise ExtractError('unbalanced %s' % open_c)


def active_regions(src, macros):
    """list of booleans per character: is it in an active preprocessor region, evaluating only
    conditions over the given integer macros (others: treated as active)"""
    act = [True] * len(src)
    stack = []  # (parent_active, this_branch_active, any_taken, known)
    pos = 0
    cur = True
    for m in re.finditer(r'^[ \t]*#[ \t]*(if|ifdef|ifndef|elif|else|endif)\b([^\n]*)$', src, re.M):
        for k in range(pos, m.start()):
            act[k] = cur
        pos = m.start()
        d, cond = m.group(1), m.group(2)
        cond = re.sub(r'//.*', '', cond).strip()

        def ev(c):
            toks = set(re.findall(r'[A-Za-z_]\w*', c)) - {'defined'}
            if d in ('ifdef', 'ifndef') or not toks or not toks <= set(macros):
                return None
            e = c
            for k_, v in macros.items():
                e = re.sub(r'\b%s\b' % k_, str(v), e)
            e = e.replace('&&', ' and ').replace('||', ' or ').replace('!', ' not ').replace(' not =', '!=')
            return bool(eval(e, {'__builtins__': {}}))
        if d in ('if', 'ifdef', 'ifndef'):
            v = ev(cond)
            stack.append([cur, v, v is True, v is not None])
            cur = cur and (v is not False)
        elif d == 'elif':
            top = stack[-1]
            v = ev(cond) if top[3] else None
            if top[3] and v is not None:
                take = (not top[2]) and v
                top[2] = top[2] or v
                cur = top[0] and take
            else:
                cur = top[0]
        elif d == 'else':
            top = stack[-1]
            if top[3]:
                cur = top[0] and not top[2]
            else:
                cur = top[0]
        else:
            top = stack.pop()
            cur = top[0]
    for k in range(pos, len(src)):
        act[k] = cur
    return act


def find_function_defs(src, masked, qualname, depth_ok=(0,)):
    """all definitions `... qualname ( params ) [const] { body }` at file scope.
    returns list of dicts(start, sig_end, body_open, body_close, params, head)"""
    res = []
    for m in re.finditer(r'(?<![\w:])%s\s*\(' % re.escape(qualname), masked):
        po = m.end() - 1
        pc = match_close(masked, po, '(', ')')
        k = pc + 1
        while k < len(masked) and masked[k] in ' \t\n':
            k += 1
        if masked.startswith('const', k):
            k += 5
            while masked[k] in ' \t\n':
                k += 1
        if k >= len(masked) or masked[k] != '{':
            continue
        # walk back to the start of the declaration (after previous ; or } or preprocessor line/newline-blank)
        s = m.start()
        while s > 0 and masked[s - 1] not in ';}#':
            s -= 1
        if s > 0 and masked[s - 1] == '#':
            s = masked.find('\n', s) + 1
        # must be at brace depth 0 w.r.t. file (not a call inside a body)
        depth = masked[:s].count('{') - masked[:s].count('}')
        if depth not in depth_ok:
            continue
        head = src[s:m.start()]
        # skip leading whitespace
        s2 = s + (len(head) - len(head.lstrip()))
        bc = match_close(masked, k, '{', '}')
        res.append(dict(start=s2, name_at=m.start(), paren_open=po, paren_close=pc, body_open=k, body_close=bc,
                        params=src[po + 1:pc], head=src[s2:m.start()]))
    return res


def norm_params(p):
    p = re.sub(r'/\*.*?\*/', '', p, flags=re.S)
    return re.sub(r'\s+', ' ', p).strip()


def param_types(p):
    """normalised list of parameter types (names stripped) for overload matching"""
    p = norm_params(p)
    if not p:
        return []
    out = []
    for part in asmx86.split_top(p, ','):
        part = part.strip()
        part = re.sub(r'=.*$', '', part).strip()
        arr = ''
        m = re.search(r'(\[[^\]]*\])\s*$', part)
        if m:
            arr = '*'
            part = part[:m.start()].strip()
        m = re.match(r'^(.*?)(\w+)$', part)
        t = m.group(1).strip() if m and m.group(1).strip() and not re.match(r'^(const|unsigned|signed)$', m.group(1).strip()) else part
        t = t.replace('Goldilocks::Element', 'Element').replace('Goldilocks3::Element', 'Element3')
        t = re.sub(r'\s*([&*])\s*', r'\1', t)
        t = re.sub(r'\s+', ' ', t) + arr
        out.append(t)
    return out


# ------------------------------------------------------------------ the filter

class Filter:
    MACROS = {'USE_MONTGOMERY': 0, 'GOLDILOCKS_DEBUG': 0}

    def __init__(self, repo_src, dst):
        self.repo_src = repo_src
        self.dst = dst
        self.report = []
        self.files = {}
        self.sha = {}
        os.makedirs(dst, exist_ok=True)
        for fn in sorted(os.listdir(repo_src)):
            if fn.endswith(('.hpp', '.cpp', '.cuh', '.cu')):
                with open(os.path.join(repo_src, fn), 'rb') as f:
                    raw = f.read()
                self.sha[fn] = hashlib.sha256(raw).hexdigest()
                self.files[fn] = raw.decode('utf-8', 'replace')

    def note(self, rule, fn, count, removed, inserted, detail=''):
        self.report.append(dict(rule=rule, file=fn, fired=count, bytes_removed=removed, bytes_inserted=inserted,
                                sha256=self.sha.get(fn, ''), detail=detail))

    def write(self):
        for fn, txt in self.files.items():
            with open(os.path.join(self.dst, fn), 'w') as f:
                f.write(txt)

    # -- rules -------------------------------------------------------------
    def check_macros(self):
        src = self.files['goldilocks_base_field.hpp']
        for k, v in self.MACROS.items():
            if not re.search(r'^#define\s+%s\s+%d\s*$' % (k, v), src, re.M):
                raise ExtractError('E-config: expected `#define %s %d` in goldilocks_base_field.hpp' % (k, v))
        self.note('E-config', 'goldilocks_base_field.hpp', len(self.MACROS), 0, 0, 'USE_MONTGOMERY==0, GOLDILOCKS_DEBUG==0 confirmed')

    def drop_function(self, fn, qualname, ptypes=None, expect=1, rule='E-drop', keep_decl=False, in_class=False):
        """remove definition(s) of qualname (optionally only the overload with the given param types);
        in_class: the definition is an inline member inside a class body (brace depth 1), replaced by its declaration"""
        src = self.files[fn]
        masked = mask_noncode(src)
        defs = find_function_defs(src, masked, qualname, depth_ok=(1,) if in_class else (0,))
        if in_class:
            keep_decl = True
        if ptypes is not None:
            defs = [d for d in defs if param_types(d['params']) == ptypes]
        if len(defs) != expect:
            raise ExtractError('%s: %s %s in %s: expected %d definition(s), found %d' % (rule, qualname, ptypes, fn, expect, len(defs)))
        removed = 0
        for d in sorted(defs, key=lambda d: -d['start']):
            end = d['body_close'] + 1
            # swallow a trailing ';'
            m = re.match(r'[ \t]*;', src[end:])
            if m:
                end += m.end()
            text = src[d['start']:end]
            repl = '/* %s: definition of %s removed */' % (rule, qualname)
            if keep_decl:
                head = d['head'] if in_class else re.sub(r'\binline\b', '', d['head'])
                repl += ' ' + head + qualname + '(' + d['params'] + ');'
            repl += '\n' * text.count('\n')
            src = src[:d['start']] + repl + src[end:]
            removed += len(text)
        self.files[fn] = src
        self.note(rule, fn, len(defs), removed, 0, '%s(%s)' % (qualname, ','.join(ptypes) if ptypes is not None else '*'))

    def get_function(self, fn, qualname, ptypes=None, in_class=False):
        src = self.files[fn]
        masked = mask_noncode(src)
        defs = find_function_defs(src, masked, qualname, depth_ok=(1,) if in_class else (0,))
        if ptypes is not None:
            defs = [d for d in defs if param_types(d['params']) == ptypes]
        if len(defs) != 1:
            raise ExtractError('get_function: %s %s in %s: found %d' % (qualname, ptypes, fn, len(defs)))
        d = defs[0]
        d['text'] = src[d['start']:d['body_close'] + 1]
        d['body'] = src[d['body_open']:d['body_close'] + 1]
        d['line'] = src[:d['start']].count('\n') + 1
        return d

    def translate_asm(self, fn, expect):
        src = self.files[fn]
        masked = mask_noncode(src)
        act = active_regions(src, self.MACROS)
        out, pos, count, rem, ins, details = [], 0, 0, 0, 0, []
        for m in re.finditer(r'\b__asm__\s*(volatile\s*)?\(', masked):
            if not act[m.start()]:
                continue
            po = m.end() - 1
            pc = match_close(masked, po, '(', ')')
            end = pc + 1
            mm = re.match(r'\s*;', src[end:])
            if not mm:
                raise ExtractError('E-asm: asm statement not followed by ;')
            end += mm.end()
            line = src[:m.start()].count('\n') + 1
            try:
                code, insns = asmx86.Translator('%d' % line).translate(src[po + 1:pc])
            except asmx86.AsmError as e:
                raise ExtractError('E-asm: %s:%d: %s' % (fn, line, e))
            nl = src[m.start():end].count('\n') - code.count('\n')
            code += '\n' * max(nl, 0)
            out.append(src[pos:m.start()])
            out.append(code)
            pos = end
            count += 1
            rem += end - m.start()
            ins += len(code)
            details.append('%s:%d [%s]' % (fn, line, '; '.join(insns)))
        out.append(src[pos:])
        if count != expect:
            raise ExtractError('E-asm: %s: expected %d active asm statements, translated %d' % (fn, expect, count))
        new = ''.join(out)
        # prelude after the include guard's first #include
        m = re.search(r'^#include "goldilocks_base_field.hpp"[^\n]*\n', new, re.M)
        if not m:
            raise ExtractError('E-asm: include anchor not found in %s' % fn)
        new = new[:m.end()] + asmx86.PRELUDE.replace('\n', ' ') + '\n' + new[m.end():]
        self.files[fn] = new
        self.note('E-asm', fn, count, rem, ins, ' | '.join(details))

    def rename_unary_ops(self):
        """CBMC's C++ front end mis-resolves the binary `a + b` / `a - b` on Element when a unary overload of the
        same operator is visible.  The two unary overloads are renamed to ordinary functions (bodies kept and
        verified under the new name); the rule first checks nothing in /repo/src applies them."""
        fn = 'goldilocks_base_field.hpp'
        for sym, name in (('+', 'vf_operator_pos'), ('-', 'vf_operator_neg')):
            pat = r'inline Goldilocks::Element operator\%s\(const Goldilocks::Element &in1\)' % sym
            self.replace_text(fn, 'E-misc', pat, 'inline Goldilocks::Element %s(const Goldilocks::Element &in1)' % name, 1)
        for f2, s2 in self.files.items():
            if not f2.endswith(('.hpp', '.cpp')):
                continue
            mk = mask_noncode(s2)
            for mm in re.finditer(r'(?:[=(,*/%&|^<>!?:~]|\breturn)\s*[+-](?![+=\-\d.>])\s*([A-Za-z_]\w*)', mk):
                ident = mm.group(1)
                # allowed: unary sign applied to integers / gmp values
                ctx = mk[mm.start():mm.end() + 40]
                if re.match(r'.*[+-]\s*(onegative|\d)', ctx, re.S):
                    continue
                line = mk[:mm.start()].count('\n') + 1
                raise ExtractError('E-misc: possible use of a unary +/- on an Element at %s:%d (%r)' % (f2, line, ctx[:40]))

    def replace_text(self, fn, rule, pattern, repl, expect, flags=0):
        src = self.files[fn]
        new, n = re.subn(pattern, repl, src, flags=flags)
        ok = (n in expect) if isinstance(expect, (tuple, list, set)) else (n == expect)
        if not ok:
            raise ExtractError('%s: %s: pattern %r fired %d times, expected %s' % (rule, fn, pattern, n, expect))
        self.files[fn] = new
        self.note(rule, fn, n, len(src) - len(new) if len(src) > len(new) else 0, len(new) - len(src) if len(new) > len(src) else 0, pattern)


    def static_init_rules(self):
        """E-init: file-scope constants whose initialiser is a *call* (dynamic initialisation in C++) are rewritten to
        the equivalent aggregate initialiser, so that no function runs before main in the verified program (dfcc
        cannot instrument calls made from the static-initialisation routine).  _mm256_set_epi64x(e3,e2,e1,e0) ->
        {{e0,e1,e2,e3}} (L0 lane order), _mm256_xor_si256(P,MSB) -> lane-wise ^ of the two captured initialisers,
        Goldilocks::fromU64(c) -> {c} (identity for USE_MONTGOMERY==0; fromU64 itself is verified under C15)."""
        fn = 'goldilocks_base_field_avx.hpp'
        src = self.files[fn]
        caps = {}

        def r256(m):
            args = [a.strip() for a in asmx86.split_top(m.group(2), ',')]
            if len(args) != 4:
                raise ExtractError('E-init: _mm256_set_epi64x arity')
            caps[m.group(1)] = args[::-1]
            return 'const __m256i %s = {{%s}};' % (m.group(1), ', '.join('(vf_u64)(%s)' % a for a in args[::-1]))
        src, n = re.subn(r'^const __m256i (\w+) = _mm256_set_epi64x\((.*)\);', r256, src, flags=re.M)
        if n != 4:
            raise ExtractError('E-init: %s: set_epi64x constants fired %d, expected 4' % (fn, n))

        def rxor(m):
            a, b = caps.get(m.group(2)), caps.get(m.group(3))
            if a is None or b is None:
                raise ExtractError('E-init: xor operands unknown')
            return 'const __m256i %s = {{%s}};' % (m.group(1), ', '.join('(vf_u64)(%s) ^ (vf_u64)(%s)' % (x, y) for x, y in zip(a, b)))
        src, n2 = re.subn(r'^const __m256i (\w+) = _mm256_xor_si256\((\w+), (\w+)\);', rxor, src, flags=re.M)
        if n2 != 1:
            raise ExtractError('E-init: %s: xor constant fired %d, expected 1' % (fn, n2))
        if re.search(r'^const __m\w+ \w+ = _mm', src, re.M):
            raise ExtractError('E-init: %s: a file-scope vector constant with a call initialiser remains' % fn)
        self.files[fn] = src
        self.note('E-init', fn, n + n2, 0, 0, 'MSB,P,P_n,sqmask aggregate; P_s lane-wise xor')

        fn = 'goldilocks_base_field_avx512.hpp'
        src = self.files[fn]

        def r512(m):
            args = [a.strip() for a in asmx86.split_top(m.group(2), ',')]
            if len(args) != 8:
                raise ExtractError('E-init: _mm512_set_epi64 arity')
            return 'const __m512i %s = {{%s}};' % (m.group(1), ', '.join('(vf_u64)(%s)' % a for a in args[::-1]))
        src, n = re.subn(r'^const __m512i (\w+) = _mm512_set_epi64\((.*)\);', r512, src, flags=re.M)
        if n != 3:
            raise ExtractError('E-init: %s: set_epi64 constants fired %d, expected 3' % (fn, n))
        if re.search(r'^const __m\w+ \w+ = _mm', src, re.M):
            raise ExtractError('E-init: %s: a file-scope vector constant with a call initialiser remains' % fn)
        self.files[fn] = src
        self.note('E-init', fn, n, 0, 0, 'P8,P8_n,sqmask8 aggregate')

        fn = 'goldilocks_base_field.cpp'
        src = self.files[fn]
        cut = src.find('void Goldilocks::parcpy')
        if cut < 0:
            raise ExtractError('E-init: anchor parcpy not found')
        head, n = re.subn(r'Goldilocks::fromU64\(([0-9A-Fa-fxXULl]+)\)', r'{(uint64_t)(\1)}', src[:cut])
        if n != 35:
            raise ExtractError('E-init: %s: fromU64 initialisers fired %d, expected 35' % (fn, n))
        self.files[fn] = head + src[cut:]
        self.note('E-init', fn, n, 0, 0, 'W[33], SHIFT: fromU64(c) -> {c}')

        fn = 'goldilocks_cubic_extension.cpp'
        src = self.files[fn]
        src, n = re.subn(r'Goldilocks::zero\(\)', '{(uint64_t)0}', src)
        src, n1 = re.subn(r'Goldilocks::one\(\)', '{(uint64_t)1}', src)
        if n != 5 or n1 != 1:
            raise ExtractError('E-init: %s: zero()/one() initialisers fired %d/%d, expected 5/1' % (fn, n, n1))
        self.files[fn] = src
        self.note('E-init', fn, n + n1, 0, 0, 'Goldilocks3::ZERO/ONE: zero()/one() -> literals (ZERO.fe==0, ONE.fe==1 checked in C15 unit consts)')

TOOLS_DROP = [
    ('Goldilocks::to_montgomery', None, 1), ('Goldilocks::from_montgomery', None, 1),
    ('Goldilocks::fromString', None, 2), ('Goldilocks::fromScalar', None, 2),
    ('Goldilocks::toS64', None, 2), ('Goldilocks::toS32', None, 1), ('Goldilocks::toString', None, 3),
]


def base_filter(repo_src, dst, keep_gmp=False):
    """rules common to every unit that reads the base-field headers"""
    f = Filter(repo_src, dst)
    f.check_macros()
    f.drop_function('goldilocks_base_field_scalar.hpp', 'Goldilocks::mul2', expect=1)
    f.translate_asm('goldilocks_base_field_scalar.hpp', expect=3)
    for q, pt, n in TOOLS_DROP:
        if keep_gmp and q in ('Goldilocks::fromString', 'Goldilocks::fromScalar', 'Goldilocks::toS64', 'Goldilocks::toS32'):
            continue
        f.drop_function('goldilocks_base_field_tools.hpp', q, pt, expect=n)
    f.rename_unary_ops()
    f.static_init_rules()
    return f


def gmp_filter(repo_src, dst):
    """E-gmp (C15 only): the mpz_class functions of goldilocks_base_field_tools.hpp keep their bodies; mpz_class is bound to
    a 128-bit integer by stubs/vf_gmp_model.h (assumed contracts on GMP, see that file)."""
    f = base_filter(repo_src, dst, keep_gmp=True)
    fn = 'goldilocks_base_field_tools.hpp'
    f.replace_text(fn, 'E-gmp', r'\b(\w+)\.get_ui\(\)', r'vf_mpz_get_ui(\1)', 4)
    f.replace_text(fn, 'E-gmp', r'\b(\w+)\.get_si\(\)', r'vf_mpz_get_si(\1)', 4)
    f.replace_text(fn, 'E-gmp', r'(\b\w+|\([^()]*(?:\([^()]*\)[^()]*)*\)) % \(uint64_t\)GOLDILOCKS_PRIME', r'vf_mpz_tdiv_r_p(\1)', 2)
    f.replace_text(fn, 'E-gmp', r'mpz_class aux\(in1, radix\);', 'mpz_class aux = vf_mpz_parse(in1, radix); /* E-gmp: GMP string parse not verified */', 1)
    f.replace_text(fn, 'E-gmp', r'std::cerr << "Error: Goldilocks::toS32 accessing a non-32bit value: "[^;]*;', '/* E-gmp: diagnostic output dropped */;', 1)
    f.replace_text(fn, 'E-gmp', r'#include "goldilocks_base_field.hpp"\n', '#include "goldilocks_base_field.hpp"\nmpz_class vf_mpz_parse(const std::string &, int);\n', 1)
    return f


def cubic_filter(repo_src, dst, keep_batch_inverse=False):
    """rules for units that read goldilocks_cubic_extension.hpp: std::vector / std::string helpers are dropped
    (replaced by their in-class declarations); the scalar arithmetic is untouched."""
    f = gmp_filter(repo_src, dst)
    fn = 'goldilocks_cubic_extension.hpp'
    f.drop_function(fn, 'toVector', expect=2, in_class=True)
    f.drop_function(fn, 'toString', expect=4, in_class=True)
    f.drop_function(fn, 'fromString', expect=1, in_class=True)
    if not keep_batch_inverse:
        f.drop_function(fn, 'batchInverse', expect=1, in_class=True)
    # E-norm: a C-style cast to reference-to-array is mis-typed by CBMC's C++ front end; the equivalent pointer form is used
    f.replace_text(fn, 'E-norm', r'\(Element &\)zero\(\)', '(*(Element *)&zero())', (0, 1))   # normalisation: fires when the construct is present
    return f
