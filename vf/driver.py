"""Driver: extraction -> goto-cc -> goto-instrument --dfcc -> cbmc, per unit, in parallel; evidence; replay.

Exit codes: 0 all obligations discharged (known findings listed) ; 1 VIOLATION ; 2 machinery problem
(timeout, extraction rule did not fire, tool crash, vacuity guard) - never reported as a violation.
"""
import concurrent.futures
import importlib.util
import json
import os
import re
import resource
import shutil
import subprocess
import sys
import tempfile
import time

from . import extract

VERIF = os.path.dirname(os.path.dirname(os.path.abspath(__file__)))
REPO = os.environ.get('VF_REPO', '/repo')
JOBS = int(os.environ.get('VF_JOBS', '16'))
TIMEOUT_SCALE = float(os.environ.get('VF_TIMEOUT_SCALE', '2'))
MEM_LIMIT = int(os.environ.get('VF_MEM_GB', '40')) << 30   # address-space limit per tool process (cbmc reserves far more than it touches)

CBMC_CHECKS = ['--bounds-check', '--pointer-check', '--pointer-overflow-check', '--undefined-shift-check',
               '--signed-overflow-check', '--div-by-zero-check']


class MachineryError(Exception):
    pass


def strip_traces(o):
    """cbmc --json-ui prints a full trace for every failed property, including the sentinel that must fail; a trace through large
    arrays is hundreds of MB.  The pretty-printed array `"trace": [ ... ]` is cut out textually (closing bracket = same indentation)
    before parsing; traces are only read in the dedicated --trace re-run of one property."""
    out, pos = [], 0
    while True:
        i = o.find('"trace": [', pos)
        if i < 0:
            break
        ls = o.rfind('\n', 0, i) + 1
        indent = o[ls:i]
        if indent.strip():
            break
        j = o.find('\n' + indent + ']', i)
        if j < 0:
            break
        out.append(o[pos:i]); out.append('"trace": []')
        pos = j + 1 + len(indent) + 1
    out.append(o[pos:])
    return ''.join(out)


class Group:
    """one extraction + compilation context shared by several units"""

    def __init__(self, name, filter_fn, cpp=(), c=(), defines=(), repo_cpp=('goldilocks_base_field.cpp',), cxx_defines=()):
        self.name = name
        self.filter_fn = filter_fn      # (repo_src, dst) -> extract.Filter (already applied, not yet written)
        self.cpp = list(cpp)            # /verif-relative C++ wrapper sources
        self.c = list(c)                # /verif-relative C contract sources
        self.defines = list(defines)    # -D for both
        self.cxx_defines = list(cxx_defines)
        self.repo_cpp = list(repo_cpp)  # filtered repo .cpp files to compile and link (first in link order)


class Unit:
    def __init__(self, name, group, enforce, harness=None, replace=(), flags=(), tier='quick', functions=(),
                 loops='none', timeout=None, note='', bounded=None, checks=None, object_bits=None, light=False, never_returns=False):
        self.name = name
        self.group = group
        self.enforce = enforce
        self.harness = harness or ('h_' + enforce)
        self.replace = list(replace)
        self.flags = list(flags)
        self.tier = tier
        self.functions = list(functions)
        self.loops = loops
        self.timeout = timeout
        self.note = note
        self.bounded = bounded      # None, or a string describing the bound (then never counted as proved)
        self.checks = checks
        self.object_bits = object_bits
        self.never_returns = never_returns   # contract says the call does not return: sentinel must be unreachable, the exit marker reachable
        self.light = light   # no dfcc: harness-style check (requires = exact-extent declarations, ensures = assertions, callee contracts = assume stubs)


def _limits():
    resource.setrlimit(resource.RLIMIT_AS, (MEM_LIMIT, MEM_LIMIT))


def _mem_available_kb():
    try:
        for l in open('/proc/meminfo'):
            if l.startswith('MemAvailable:'):
                return int(l.split()[1])
    except Exception:
        pass
    return 1 << 40


def _rss_kb(pid):
    try:
        for l in open('/proc/%d/status' % pid):
            if l.startswith('VmRSS:'):
                return int(l.split()[1])
    except Exception:
        pass
    return 0


def run(cmd, cwd, timeout, log=None):
    """runs a tool; output goes through a scratch file (a cbmc JSON with traces can be hundreds of MB).  Memory guard: when the
    machine has < 4 GB available and this child holds > 6 GB it is killed (rc -998, reported as a machinery problem, never a violation)."""
    import tempfile
    t0 = time.time()
    rc = None
    with tempfile.TemporaryFile(dir=cwd) as tf:
        p = subprocess.Popen(cmd, cwd=cwd, stdout=tf, stderr=subprocess.STDOUT, preexec_fn=_limits)
        tick = 0
        while True:
            try:
                rc = p.wait(timeout=1.0)
                break
            except subprocess.TimeoutExpired:
                pass
            tick += 1
            if timeout is not None and time.time() - t0 > timeout:
                p.kill(); p.wait(); rc = -999
                break
            if tick % 3 == 0 and _mem_available_kb() < 4 * 1024 * 1024 and _rss_kb(p.pid) > 6 * 1024 * 1024:
                p.kill(); p.wait(); rc = -998
                break
        tf.seek(0)
        out = tf.read().decode('utf-8', 'replace')
    if rc == -999:
        out += '\n[vf] TIMEOUT after %ds' % timeout
    if rc == -998:
        out += '\n[vf] killed by the memory guard (machine almost out of memory)'
    if log:
        with open(log, 'a') as f:
            f.write('$ ' + ' '.join(cmd) + '\n' + (out if len(out) < 200000 else out[:20000] + '\n[... %d bytes cut ...]\n' % (len(out) - 120000) + out[-100000:]) + '\n')
    return rc, out, time.time() - t0


def const_excludes(srcdir):
    """`const` objects of static storage duration.  dfcc havocs every static it cannot recognise as const, and the
    C++ front end loses the qualifier on the symbol, so each object that is declared const in the (filtered) source is
    excluded from the havoc by name.  The list is derived from the source text on every run."""
    ex = []
    p = os.path.join(srcdir, 'goldilocks_base_field.hpp')
    if not os.path.exists(p):
        return ex       # pure M2 group: only generated C files
    s = open(p).read()
    for m in re.finditer(r'^\s*static const Element (\w+)(\[[^\]]*\])?;', s, re.M):
        ex.append('src/goldilocks_base_field.hpp:Goldilocks::' + m.group(1))
    for fn in ('goldilocks_base_field_avx.hpp', 'goldilocks_base_field_avx512.hpp'):
        s = open(os.path.join(srcdir, fn)).read()
        for m in re.finditer(r'^const __m(?:256|512)i (\w+) =', s, re.M):
            ex.append('src/%s:%s' % (fn, m.group(1)))
    p = os.path.join(srcdir, 'goldilocks_cubic_extension.hpp')
    if os.path.exists(p):
        s = open(p).read()
        for m in re.finditer(r'^\s*static const Element (\w+);', s, re.M):
            ex.append('src/goldilocks_cubic_extension.hpp:Goldilocks3::' + m.group(1))
    p = os.path.join(srcdir, 'poseidon_goldilocks_constants.hpp')
    if os.path.exists(p):
        s = open(p).read()
        for m in re.finditer(r'^\s*(?:inline )?(?:constexpr )?(?:static )?(?:const )?Goldilocks::Element (\w+)\[', s, re.M):
            ex.append('src/poseidon_goldilocks_constants.hpp:PoseidonGoldilocksConstants::' + m.group(1))
    return sorted(set(ex))


class Runner:
    def __init__(self, prop, tier, seed, keep=False):
        self.prop = prop
        self.tier = tier
        self.seed = seed
        self.keep = keep
        self.mod = load_prop(prop)
        base = os.environ.get('TMPDIR', '/var/tmp')
        self.scratch = tempfile.mkdtemp(prefix='vf_%s_' % prop, dir=base)
        self.groups = {}
        self.t0 = time.time()

    def cleanup(self):
        if not self.keep:
            shutil.rmtree(self.scratch, ignore_errors=True)

    # ------------------------------------------------------------ build
    def build_group(self, g):
        gd = os.path.join(self.scratch, g.name)
        src = os.path.join(gd, 'src')
        os.makedirs(src)
        log = os.path.join(gd, 'build.log')
        f = g.filter_fn(os.path.join(REPO, 'src'), src)
        f.write()
        incs = ['-I', os.path.join(VERIF, 'stubs'), '-I', 'src', '-I', os.path.join(VERIF, 'units'),
                '-I', os.path.join(VERIF, 'contracts')]
        cxx = ['goto-cc', '-nostdinc', '-Dalignas(x)=', '-std=c++17'] + incs + ['-D' + d for d in g.defines + g.cxx_defines]
        gbs = []
        for rc_ in g.repo_cpp:
            out = 'repo_%s.gb' % rc_.replace('.', '_')
            rc, o, _ = run(cxx + ['-c', os.path.join('src', rc_), '-o', out], gd, 300, log)
            if rc != 0:
                raise MachineryError('goto-cc failed on filtered %s:\n%s' % (rc_, o[-2000:]))
            gbs.append(out)
        for i, cpp in enumerate(g.cpp):
            out = 'w%d.gb' % i
            rc, o, _ = run(cxx + ['-c', os.path.join(VERIF, cpp), '-o', out], gd, 300, log)
            if rc != 0:
                raise MachineryError('goto-cc failed on %s:\n%s' % (cpp, o[-2000:]))
            gbs.append(out)
        for i, c in enumerate(g.c):
            out = 'c%d.gb' % i
            rc, o, _ = run(['goto-cc', '-I', os.path.join(VERIF, 'contracts'), '-I', os.path.join(VERIF, 'stubs', 'c'), '-I', 'src'] +
                           ['-D' + d for d in g.defines] + ['-c', os.path.join(VERIF, c), '-o', out], gd, 300, log)
            if rc != 0:
                raise MachineryError('goto-cc failed on %s:\n%s' % (c, o[-2000:]))
            gbs.append(out)
        return dict(dir=gd, gbs=gbs, report=f.report, excludes=const_excludes(src), filter=f)

    # ------------------------------------------------------------ one unit
    def run_unit(self, u, ginfo, extra_flags=(), trace_property=None):
        gd = ginfo['dir']
        safe = re.sub(r'[^\w.@-]', '_', u.name)
        log = os.path.join(gd, 'unit_%s.log' % safe)
        # the per-unit limits were set from runs on an idle machine; a loaded or slower host took 1.6x as long (a 191 s unit hit its
        # 300 s limit), so every limit is scaled.  A timeout is a machinery problem (exit 2), never a verdict - the scale only bounds runaways.
        tmo = int((u.timeout or (120 if self.tier == 'quick' else 900)) * TIMEOUT_SCALE)
        res = dict(unit=u.name, enforce=u.enforce, replace=u.replace, functions=u.functions, loops=u.loops,
                   bounded=u.bounded, note=u.note, status='error', obligations=0, discharged=0, failed=[],
                   sentinel=None, seconds=0.0, solver='cbmc 6.11.0 --sat-solver cadical', detail='')
        t0 = time.time()
        linked = 'l_%s.gb' % safe
        inst = 'i_%s.gb' % safe
        rc, o, _ = run(['goto-cc', '--function', u.harness] + ginfo['gbs'] + ['-o', linked], gd, 300, log)
        if rc != 0:
            res['detail'] = 'link failed: ' + o[-1500:]
            return res
        if u.light:
            inst = linked
            if u.loops == 'contract':
                inst = 'i_%s.gb' % safe
                rc, o, _ = run(['goto-instrument', '--apply-loop-contracts', linked, inst], gd, tmo, log)
                if rc != 0 or not re.search(r'loop', o, re.I) and False:
                    res['detail'] = 'goto-instrument --apply-loop-contracts failed (rc %s): %s' % (rc, o[-1500:])
                    return res
        else:
            cmd = ['goto-instrument', '--dfcc', u.harness, '--enforce-contract', u.enforce]
            for r in u.replace:
                cmd += ['--replace-call-with-contract', r]
            if u.loops == 'contract':
                cmd += ['--apply-loop-contracts']
            for e in ginfo['excludes']:
                cmd += ['--nondet-static-exclude', e]
            rc, o, _ = run(cmd + [linked, inst], gd, tmo, log)
            if rc != 0:
                res['detail'] = 'goto-instrument failed (rc %s): %s' % (rc, o[-1500:])
                res['status'] = 'timeout' if rc == -999 else 'error'
                return res
        checks = u.checks if u.checks is not None else CBMC_CHECKS
        cmd = ['cbmc', '--sat-solver', 'cadical', '--json-ui'] + checks + u.flags + list(extra_flags)
        if trace_property:
            cmd += ['--property', trace_property, '--trace']
        # dfcc sizes its object-indexed arrays by 2^object-bits, so the smallest sufficient value is used: start at the
        # unit's setting (default 8) and climb only when CBMC reports "too many addressed objects"
        ladder = [b for b in (8, 10, 12, 14) if b >= (u.object_bits or 8)]
        for ob in ladder:
            rc, o, secs = run(cmd + ['--object-bits', str(ob)] + [inst], gd, tmo, log)
            if 'too many addressed objects' not in o:
                break
        cmd += ['--object-bits', str(ob)]
        res['seconds'] = round(time.time() - t0, 2)
        res['checker_cmd'] = ' '.join(cmd + [inst])
        if rc == -999:
            res['status'] = 'timeout'
            res['detail'] = 'cbmc timeout after %ds' % tmo
            return res
        if rc == -998:
            res['status'] = 'error'
            res['detail'] = 'cbmc killed by the memory guard (machine almost out of memory)'
            return res
        if trace_property is None:
            o = strip_traces(o)
        try:
            msgs = json.loads(o)
        except Exception:
            res['detail'] = 'cbmc output not JSON (rc %s): %s' % (rc, o[-1500:])
            return res
        results = None
        texts = []
        for m in msgs:
            if isinstance(m, dict):
                if 'result' in m:
                    results = m['result']
                if 'messageText' in m:
                    texts.append(m['messageText'])
        bad = [t for t in texts if re.search(r'ignoring|not enough arguments|no body for function', t) and not (u.light and re.search(r'no body for function .*(vf_nondet|exit)', t))]
        if bad:
            res['detail'] = 'unexpected CBMC warning(s): ' + ' | '.join(bad[:5])
            return res
        if results is None:
            res['detail'] = 'no result array in cbmc output (rc %s): %s' % (rc, ' | '.join(texts[-5:]))
            return res
        obl, failed, sentinel = [], [], None
        for r in results:
            name, st, desc = r.get('property', ''), r.get('status', ''), r.get('description', '')
            fn_ = (r.get('sourceLocation') or {}).get('function', '')
            if u.light and re.match(r'^hl?_', fn_) and fn_ != u.harness:
                continue    # obligations of other harnesses linked into the same binary (unreachable from this entry)
            if 'vf_sentinel' in desc:
                sentinel = st
                continue
            obl.append((name, st, desc))
            if st != 'SUCCESS':
                failed.append(dict(obligation=name, status=st, description=desc,
                                   location=r.get('sourceLocation', {}), trace=r.get('trace')))
        has_fail = any(o_[1] == 'FAILURE' for o_ in obl)
        if has_fail:
            # obligations after a fatal failure (e.g. a pointer failure) are reported UNKNOWN by CBMC: they are consequences, drop them
            failed = [f_ for f_ in failed if f_['status'] == 'FAILURE']
            obl = [o_ for o_ in obl if o_[1] in ('SUCCESS', 'FAILURE')]
            if sentinel == 'UNKNOWN':
                sentinel = 'FAILURE'
        if any(o_[1] not in ('SUCCESS', 'FAILURE') for o_ in obl) or sentinel not in ('SUCCESS', 'FAILURE', None):
            # ERROR / UNKNOWN: the solver gave up (e.g. out of memory) - undecided, never a violation
            res['status'] = 'error'
            res['detail'] = 'solver did not decide %d obligation(s) (status %s): %s' % (
                len([1 for o_ in obl if o_[1] not in ('SUCCESS', 'FAILURE')]), sorted(set(o_[1] for o_ in obl)), ' | '.join(t for t in texts if 'memory' in t.lower())[:300])
            res['obligations'] = len(obl)
            res['discharged'] = 0
            return res
        res['obligations'] = len(obl)
        res['discharged'] = len([1 for o_ in obl if o_[1] == 'SUCCESS'])
        res['failed'] = failed
        res['sentinel'] = sentinel
        res['obligation_names'] = [o_[0] for o_ in obl]
        res['samples'] = [dict(obligation=o_[0], description=o_[2]) for o_ in obl if 'postcondition' in o_[0] or 'postcondition' in o_[2]][:3]
        npost = len([1 for o_ in obl if o_[0].startswith(u.enforce + '.postcondition') or (u.light and 'postcondition' in o_[2])])
        if trace_property:
            res['status'] = 'traced'
            return res
        limit = [f_ for f_ in failed if f_['status'] == 'FAILURE' and f_['description'].startswith('vf_model_limit')]
        if limit:
            # the code left the envelope in which the /verif-side model of a library routine is exact: everything downstream of that
            # point is meaningless, so the unit is undecided (machinery problem, exit 2) - never a violation
            res['status'] = 'error'
            res['detail'] = 'model limit exceeded, unit undecided: ' + ' | '.join(sorted(set(f_['description'] for f_ in limit)))[:400]
            res['discharged'] = 0
            return res
        if u.never_returns:
            reach = [o_ for o_ in obl if 'vf_reach_exit' in o_[2]]
            obl2 = [o_ for o_ in obl if 'vf_reach_exit' not in o_[2]]
            res['failed'] = [f for f in failed if 'vf_reach_exit' not in f['description']]
            res['obligations'] = len(obl2) + 2
            ok_reach = bool(reach) and all(o_[1] == 'FAILURE' for o_ in reach)
            res['discharged'] = len([1 for o_ in obl2 if o_[1] == 'SUCCESS']) + (1 if ok_reach else 0) + (1 if sentinel == 'SUCCESS' else 0)
            if not ok_reach:
                res['failed'].append(dict(obligation='vf_reach_exit', status='UNREACHABLE', description='the diagnostic exit must be reachable', location={}, trace=None))
            if sentinel != 'SUCCESS':
                res['failed'].append(dict(obligation='vf_returns', status='FAILURE', description='the call returns although the contract says it never does', location={}, trace=None))
            res['status'] = 'failed' if res['failed'] else 'proved'
            return res
        if sentinel != 'FAILURE':
            res['status'] = 'vacuous'
            res['detail'] = 'vacuity guard: sentinel assertion after the call is %s (must be FAILURE = reachable)' % sentinel
            return res
        if npost == 0 and not has_fail:     # (after a fatal FAILURE CBMC reports the later obligations UNKNOWN and they were dropped above: that is a failure, not vacuity)
            res['status'] = 'vacuous'
            res['detail'] = 'vacuity guard: no postcondition obligation generated for %s' % u.enforce
            return res
        res['status'] = 'failed' if failed else 'proved'
        return res

    # ------------------------------------------------------------ replay
    def make_replay(self, u, ginfo, fail, outdir):
        """re-run with --trace for one failing obligation, extract the wrapper inputs, replay natively"""
        cu = getattr(u, 'cex_unit', None)
        r = None
        if cu is not None:
            # search for a counterexample in terms of real operands (exact product) first
            if cu.group not in self.groups:
                self.groups[cu.group] = self.build_group(self.mod.GROUPS[cu.group])
            r = self.run_unit(cu, self.groups[cu.group], trace_property=fail['obligation'])
            if not any(f.get('trace') for f in r.get('failed', [])):
                r = None
        if r is None:
            r = self.run_unit(u, ginfo, trace_property=fail['obligation'])
        inputs = {}
        cbmc_out = ''
        for f in r.get('failed', []):
            if f['obligation'] == fail['obligation'] and f.get('trace'):
                for st in f['trace']:
                    if st.get('stepType') == 'assignment':
                        lhs = st.get('lhs', '')
                        m = re.match(r'^vf_in(\w+)$', lhs)
                        if m:
                            v = st.get('value', {})
                            d = v.get('data')
                            if d is not None:
                                try:
                                    inputs[m.group(1)] = int(re.sub(r'[a-zA-Z]+$', '', str(d)))
                                except ValueError:
                                    if v.get('binary'):
                                        inputs[m.group(1)] = int(v['binary'], 2)
                cbmc_out = json.dumps([dict(step=s.get('stepType'), lhs=s.get('lhs'), value=(s.get('value') or {}).get('data'),
                                            fn=(s.get('sourceLocation') or {}).get('function'), line=(s.get('sourceLocation') or {}).get('line'))
                                       for s in f['trace'] if s.get('stepType') in ('assignment', 'failure')][-120:])
        os.makedirs(outdir, exist_ok=True)
        path = os.path.join(outdir, '%s-%s.json' % (re.sub(r'[^\w.@-]', '_', u.name), re.sub(r'[^\w.]', '_', fail['obligation'])))
        rep = dict(property=self.prop, unit=u.name, enforce=u.enforce, obligation=fail['obligation'],
                   description=fail['description'], location=fail.get('location'), inputs=inputs,
                   functions=u.functions, cbmc_trace_tail=cbmc_out, native='not-run')
        native = native_replay(self.prop, u, inputs, self.scratch) if (inputs or getattr(self.mod, 'ORACLE_SCANS', False) or getattr(load_prop(getattr(u, 'origin', None) or self.prop), 'ORACLE_SCANS', False)) else dict(outcome='no-inputs', output='')
        rep['native'] = native
        with open(path, 'w') as f:
            json.dump(rep, f, indent=1)
        return path, native


def native_replay(prop, u, inputs, scratch):
    """build props/<P>/oracle.cpp + the same wrappers natively against the *current* /repo tree and run the unit"""
    prop = getattr(u, 'origin', None) or prop
    pdir = os.path.join(VERIF, 'props', prop)
    oracle = os.path.join(pdir, 'oracle.cpp')
    if not os.path.exists(oracle):
        return dict(outcome='no-oracle', output='')
    mod = load_prop(prop)
    flags = getattr(mod, 'NATIVE_FLAGS', ['-mavx2'])
    gname = u.group[len(prop) + 1:] if u.group.startswith(prop + '_') and u.group not in mod.GROUPS else u.group
    srcs = getattr(mod, 'NATIVE_SOURCES', [g for g in mod.GROUPS[gname].cpp if 'forwarders' not in g])
    exe = os.path.join(scratch, 'replay_%s_%s' % (prop, u.group))
    if not os.path.exists(exe):
        cmd = ['g++', '-std=c++17', '-O1', '-g', '-fopenmp', '-DVF_NATIVE', '-fsanitize=address,undefined', '-fno-sanitize-recover=undefined'] + flags + \
              ['-I', os.path.join(REPO, 'src'), '-I', os.path.join(VERIF, 'units'), '-I', pdir,
               os.path.join(VERIF, 'replay', 'replay_main.cpp'), oracle] + [os.path.join(VERIF, s) for s in srcs] + \
              [os.path.join(REPO, 'src', x) for x in ('goldilocks_base_field.cpp', 'goldilocks_cubic_extension.cpp', 'ntt_goldilocks.cpp', 'poseidon_goldilocks.cpp')] + \
              ['-lgmp', '-lgmpxx', '-o', exe]
        p = subprocess.run(cmd, stdout=subprocess.PIPE, stderr=subprocess.STDOUT)
        if p.returncode != 0:
            return dict(outcome='build-failed', output=p.stdout.decode('utf-8', 'replace')[-3000:])
    args = [exe, u.name.split(':')[-1]] + ['%s=%d' % (k, v) for k, v in sorted(inputs.items())]
    try:
        p = subprocess.run(args, stdout=subprocess.PIPE, stderr=subprocess.STDOUT, timeout=120)
    except subprocess.TimeoutExpired:
        return dict(outcome='timeout', output='')
    out = p.stdout.decode('utf-8', 'replace')
    if p.returncode == 1 or 'AddressSanitizer' in out or 'runtime error' in out:
        oc = 'confirmed'
    elif p.returncode == 0:
        oc = 'not-reproduced'
    elif p.returncode == 3:
        oc = 'no-oracle'
    else:
        oc = 'confirmed' if p.returncode < 0 or p.returncode > 3 else 'no-oracle'
    return dict(outcome=oc, output=out[-3000:], cmd=' '.join(args))


def import_units(prop, pred):
    """units (and their groups) of another property that this property's chain depends on; group names get a prefix"""
    import copy
    mod = load_prop(prop)
    groups, units = {}, []
    for u in mod.UNITS:
        if not pred(u.name):
            continue
        u2 = copy.copy(u)
        u2.group = prop + '_' + u.group
        u2.origin = prop
        u2.name = prop + ':' + u.name
        if getattr(u, 'cex_unit', None) is not None:
            c2 = copy.copy(u.cex_unit)
            c2.group = prop + '_' + c2.group
            c2.origin = prop
            u2.cex_unit = c2
            g = copy.copy(mod.GROUPS[u.cex_unit.group]); g.name = c2.group; groups[c2.group] = g
        g = copy.copy(mod.GROUPS[u.group])
        g.name = u2.group
        groups[u2.group] = g
        units.append(u2)
    return groups, units


def load_prop(prop):
    path = os.path.join(VERIF, 'props', prop, 'units.py')
    if not os.path.exists(path):
        raise MachineryError('no units table for %s' % prop)
    spec = importlib.util.spec_from_file_location('vf_prop_%s' % prop, path)
    mod = importlib.util.module_from_spec(spec)
    spec.loader.exec_module(mod)
    return mod


def load_known():
    p = os.path.join(VERIF, 'known_findings.json')
    if not os.path.exists(p):
        return []
    return json.load(open(p)).get('findings', [])


def is_known(known, prop, unit, obligation):
    for k in known:
        if k.get('status') != 'known':
            continue
        if k['property'] == prop and re.fullmatch(k['unit'], unit) and re.fullmatch(k['obligation'], obligation):
            return k
    return None


def check_property(prop, tier, seed, keep=False, only=None):
    t0 = time.time()
    rn = Runner(prop, tier, seed, keep)
    mod = rn.mod
    evidence_path = os.path.join(os.environ.get('VF_EVIDENCE_DIR', os.path.join(VERIF, 'evidence')), prop + '.json')
    exit_code = 0
    lines = []
    results = []
    reports = {}
    extra = {}
    try:
        units = [u for u in mod.UNITS if (tier == 'thorough' or u.tier == 'quick')]
        if only:
            units = [u for u in units if re.search(only, u.name)]
        needed = sorted(set(u.group for u in units))
        ginfos = {}
        with concurrent.futures.ThreadPoolExecutor(max_workers=JOBS) as ex:
            futs = {g: ex.submit(rn.build_group, mod.GROUPS[g]) for g in needed}
            for g, f in futs.items():
                ginfos[g] = f.result()
                reports[g] = ginfos[g]['report']
        with concurrent.futures.ThreadPoolExecutor(max_workers=JOBS) as ex:
            futs = [(u, ex.submit(rn.run_unit, u, ginfos[u.group])) for u in units]
            for u, f in futs:
                results.append((u, f.result()))
        if hasattr(mod, 'extra_checks'):
            extra = mod.extra_checks(rn, tier, ginfos) or {}
        known = load_known()
        violations = 0
        machinery = []
        known_hits = []
        for u, r in results:
            if r['status'] in ('error', 'timeout', 'vacuous'):
                machinery.append('%s: %s: %s' % (u.name, r['status'], r['detail'][:600]))
                continue
            nrep = 0
            for fl in r['failed']:
                k = is_known(known, prop, u.name, fl['obligation'])
                if k:
                    known_hits.append((k, u, fl))
                    continue
                nrep += 1
                if nrep > 3:
                    # more than three failing obligations in one unit: the first three are replayed, the rest are listed with them
                    fl['replay'] = first_path; fl['native'] = 'not-replayed'
                    continue
                path, native = rn.make_replay(u, ginfos[u.group], fl, os.path.join(os.environ.get('VF_REPLAY_DIR', os.path.join(VERIF, 'replay', 'out')), prop))
                fl['replay'] = path
                if nrep == 1:
                    first_path = path
                fl['native'] = native.get('outcome')
                suffix = '' if native.get('outcome') == 'confirmed' else ' no-failing-input-found'
                lines.append('VIOLATION property=%s replay=%s [unit=%s obligation=%s native=%s]%s' % (
                    prop, path, u.name, fl['obligation'], native.get('outcome'), suffix))
                violations += 1
        for item in extra.get('violations', []):
            lines.append(item)
            violations += 1
        for item in extra.get('machinery', []):
            machinery.append(item)
        seen = set()
        for k, u, fl in known_hits:
            key = k.get('id', k['what'])
            if key in seen:
                continue
            seen.add(key)
            lines.append('KNOWN-FINDING: property=%s %s' % (prop, k['what']))
        if violations:
            exit_code = 1
        elif machinery:
            exit_code = 2
        for m in machinery:
            lines.append('MACHINERY: ' + m)
        write_evidence(prop, tier, seed, mod, results, reports, extra, time.time() - t0, violations, known_hits, machinery, evidence_path)
    except (extract.ExtractError, MachineryError) as e:
        lines.append('MACHINERY: %s' % e)
        exit_code = 2
        write_evidence(prop, tier, seed, mod, results, reports, extra, time.time() - t0, 0, [], [str(e)], evidence_path)
    finally:
        rn.cleanup()
    for ln in lines:
        print(ln)
    np_ = len([1 for _, r in results if r['status'] == 'proved'])
    print('[vf] %s tier=%s units=%d proved=%d obligations=%d discharged=%d wall=%.1fs exit=%d' % (
        prop, tier, len(results), np_, sum(r['obligations'] for _, r in results),
        sum(r['discharged'] for _, r in results), time.time() - t0, exit_code))
    return exit_code


def write_evidence(prop, tier, seed, mod, results, reports, extra, wall, violations, known_hits, machinery, path):
    proved_units = [(u, r) for u, r in results if not u.bounded]
    bounded_units = [(u, r) for u, r in results if u.bounded]
    # obligations that fail exactly as a listed known finding are reported under coverage.known_findings, not counted as proof obligations
    obligations = sum(r['obligations'] for u, r in proved_units) + extra.get('obligations', 0) - len([1 for k, u, fl in known_hits if not u.bounded])
    discharged = sum(r['discharged'] for u, r in proved_units) + extra.get('discharged', 0)
    samples = []
    for u, r in results:
        for s in r.get('samples', [])[:1]:
            samples.append(dict(unit=u.name, **s))
    samples = samples[:8] + extra.get('samples', [])[:6]
    units = []
    for u, r in results:
        units.append(dict(unit=u.name, status=r['status'], mode=('light: harness-style contract check without dfcc (frame checked for the operands only)' if u.light else 'dfcc'), enforce=u.enforce, replaced_callees=u.replace, functions=u.functions,
                          loops=u.loops, bounded=u.bounded, obligations=r['obligations'], discharged=r['discharged'],
                          sentinel_reachable=(r['sentinel'] == 'FAILURE'), seconds=r['seconds'], solver=r['solver'], note=u.note,
                          failed=[dict(obligation=f['obligation'], description=f['description'], replay=f.get('replay'),
                                       native=f.get('native')) for f in r['failed']], detail=r['detail'][:500]))
    level = getattr(mod, 'LEVEL', 'proof')
    ev = dict(
        property_id=prop, tier=tier, seed=seed, level=level,
        coverage=dict(
            obligations=obligations, discharged=discharged,
            checker_cmd=getattr(mod, 'CHECKER_CMD', 'goto-cc (C++ front end on the filtered /repo/src + C contracts) | goto-instrument --dfcc <harness> --enforce-contract <wrapper> [--replace-call-with-contract ..] | cbmc --sat-solver cadical ' + ' '.join(CBMC_CHECKS)),
            trusted_base=getattr(mod, 'TRUSTED_BASE', []),
            explanation=getattr(mod, 'EXPLANATION', ''),
            samples=samples or [dict(note='no obligation sample (run did not reach the solver)')],
            units=units,
            functions_under_contract=sorted(set(f for u, r in results for f in u.functions)),
            bounded=[dict(unit=u.name, bound=u.bounded, obligations=r['obligations'], discharged=r['discharged']) for u, r in bounded_units],
            extraction={g: rep for g, rep in reports.items()},
            lemmas=extra.get('lemmas', []),
            extra=extra.get('evidence', {}),
            known_findings=[dict(what=k['what'], unit=u.name, obligation=fl['obligation']) for k, u, fl in known_hits],
            machinery_problems=machinery,
            solver_seconds=round(sum(r['seconds'] for _, r in results), 1),
        ),
        assumptions=getattr(mod, 'ASSUMPTIONS', []),
        wall_s=round(wall, 2), violations=violations)
    os.makedirs(os.path.dirname(path), exist_ok=True)
    with open(path, 'w') as f:
        json.dump(ev, f, indent=1)


def main(argv):
    import argparse
    ap = argparse.ArgumentParser()
    ap.add_argument('prop')
    ap.add_argument('--tier', default=os.environ.get('VERIF_TIER', 'quick'))
    ap.add_argument('--replay')
    ap.add_argument('--keep', action='store_true')
    ap.add_argument('--only')
    a = ap.parse_args(argv)
    seed = int(os.environ.get('VERIF_SEED', '0') or 0)
    if a.replay:
        return replay_file(a.prop, a.replay)
    return check_property(a.prop, a.tier, seed, a.keep, a.only)


def replay_file(prop, path):
    rep = json.load(open(path))
    mod = load_prop(prop)
    u = [x for x in mod.UNITS if x.name == rep['unit']][0]
    scratch = tempfile.mkdtemp(prefix='vf_replay_', dir=os.environ.get('TMPDIR', '/var/tmp'))
    try:
        n = native_replay(prop, u, {k: int(v) for k, v in rep.get('inputs', {}).items()}, scratch)
    finally:
        shutil.rmtree(scratch, ignore_errors=True)
    print('replay %s unit=%s obligation=%s -> %s' % (path, rep['unit'], rep['obligation'], n.get('outcome')))
    print(n.get('output', ''))
    return 1 if n.get('outcome') == 'confirmed' else 0
