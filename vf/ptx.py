"""E-ptx: mechanical transliteration of the inline PTX of gl64_t.cuh into C, through a fixed instruction table.

Per method of class gl64_t (cut out by name and brace matching, preprocessor branches resolved for the chosen
__CUDA_ARCH__ / GL64_PARTIALLY_REDUCED) the body is emitted as a C function over `uint64_t *val`:
   val -> (*val) ; b.val -> b ; lo()/hi() -> low/high word ; to()/from() -> reduce() per configuration ;
   every asm("...": outs : ins) statement -> C statements from the table below.
PTX subset (anything else raises PtxError -> exit 2):
   add/sub[.cc].u32/.u64, addc/subc[.cc].u32/.u64      carry/borrow in one flag CF ("cc" variants write it, "c" variants read it)
   mul.lo/hi.u32, mad.lo[.cc].u32, madc.hi[.cc].u32     32x32 product through vf_mul32 (exact or uninterpreted, per unit)
   setp.eq/ne.u32/.s32 %p, a, b ; @%p setp... ; @%p mov.b64 ; @%p add.u64 ; selp.u64 ; mov.b64 d, {lo, hi}
   { .reg.pred %p; and } (predicate scope) ; trap
Operands: %N (asm operands; "+l/=l/l" 64-bit, "+r/=r/r" 32-bit), integer immediates, predicate registers.
Dropped: __device__/volatile, the class shell.  Trusted: this table (no GPU here to validate it against)."""
import re
from . import asmx86
from .extract import mask_noncode, match_close, ExtractError


class PtxError(Exception):
    pass


def resolve_pp(src, defs):
    """resolve #if/#ifdef/#ifndef/#else/#elif/#endif for the given macro dict; unknown identifiers are 0/undefined"""
    out, stack = [], []   # stack of [parent_active, taken, active]
    active = True
    for line in src.split('\n'):
        m = re.match(r'^\s*#\s*(if|ifdef|ifndef|elif|else|endif)\b(.*)$', line)
        if not m:
            out.append(line if active else '')
            continue
        d, cond = m.group(1), re.sub(r'//.*', '', m.group(2)).strip()

        def ev(c):
            c = re.sub(r'defined\s*\(?\s*(\w+)\s*\)?', lambda mm: '1' if mm.group(1) in defs else '0', c)
            c = re.sub(r'\b[A-Za-z_]\w*\b', lambda mm: str(defs.get(mm.group(0), 0)), c)
            c = c.replace('&&', ' and ').replace('||', ' or ').replace('!', ' not ').replace(' not =', '!=')
            return bool(eval(c, {'__builtins__': {}}))
        if d == 'if':
            v = ev(cond) if active else False
            stack.append([active, v, v]); active = active and v
        elif d == 'ifdef':
            v = (cond in defs) if active else False
            stack.append([active, v, v]); active = active and v
        elif d == 'ifndef':
            v = (cond not in defs) if active else False
            stack.append([active, v, v]); active = active and v
        elif d == 'elif':
            top = stack[-1]
            v = top[0] and not top[1] and ev(cond)
            top[1] = top[1] or v; active = v
        elif d == 'else':
            top = stack[-1]
            active = top[0] and not top[1]; top[1] = True
        else:
            top = stack.pop(); active = top[0]
        out.append('')
    return '\n'.join(out)


def cut_method(src, signature_re):
    masked = mask_noncode(src)
    ms = list(re.finditer(signature_re, masked))
    if len(ms) != 1:
        raise ExtractError('E-ptx: method %r found %d times' % (signature_re, len(ms)))
    m = ms[0]
    k = masked.find('{', m.end() - 1)
    e = match_close(masked, k, '{', '}')
    return src[k + 1:e], src[:m.start()].count('\n') + 1


class Ptx:
    def __init__(self):
        self.n = 0

    def stmt(self, asm_text):
        """asm_text: text between asm( and ) ; returns C statements"""
        body = asmx86.strip_comments(asm_text)
        secs = asmx86.split_top(body, ':')
        template = ''.join(re.findall(r'"((?:[^"\\]|\\.)*)"', secs[0]))
        outs = asmx86.parse_operands(secs[1]) if len(secs) > 1 else []
        ins = asmx86.parse_operands(secs[2]) if len(secs) > 2 else []
        ops = []
        for cons, expr in outs:
            if cons not in ('+l', '=l', '+r', '=r'):
                raise PtxError('output constraint %r' % cons)
            ops.append((cons, expr))
        for cons, expr in ins:
            if cons not in ('l', 'r'):
                raise PtxError('input constraint %r' % cons)
            ops.append((cons, expr))
        code = []
        # operand temporaries (GCC/nvcc semantics: inputs read before, outputs written after)
        self.n += 1
        u = self.n
        for i, (cons, expr) in enumerate(ops):
            ty = 'uint64_t' if 'l' in cons else 'uint32_t'
            init = '(%s)(%s)' % (ty, expr) if not cons.startswith('=') else '0'
            code.append('%s o%d_%d = %s;' % (ty, u, i, init))

        def val(tok, w):
            tok = tok.strip()
            m = re.match(r'^%(\d+)$', tok)
            if m:
                return 'o%d_%s' % (u, m.group(1))
            if re.match(r'^-?\d+$', tok) or re.match(r'^0x[0-9a-fA-F]+$', tok):
                return '((uint%d_t)%s)' % (w, tok)
            raise PtxError('operand %r' % tok)

        def dst(tok):
            m = re.match(r'^%(\d+)$', tok.strip())
            if not m:
                raise PtxError('destination %r' % tok)
            i = int(m.group(1))
            if i >= len(outs):
                raise PtxError('destination %%%d is an input operand' % i)
            return 'o%d_%d' % (u, i)

        for ins_ in [x.strip() for x in template.split(';') if x.strip()]:
            if ins_.startswith('{'):
                m = re.match(r'^\{\s*\.reg\.pred\s+%(\w+)$', ins_)
                if not m:
                    raise PtxError('scope %r' % ins_)
                code.append('{ _Bool pr_%s = 0;' % m.group(1))
                continue
            if ins_ == '}':
                code.append('}')
                continue
            pred = None
            m = re.match(r'^@%(\w+)\s+(.*)$', ins_)
            if m:
                pred, ins_ = 'pr_' + m.group(1), m.group(2)
            m = re.match(r'^([\w.]+)\s*(.*)$', ins_)
            opc, args = m.group(1), [a.strip() for a in asmx86.split_top(m.group(2), ',')] if m.group(2).strip() else []
            g = ('if (%s) ' % pred) if pred else ''
            mm = re.match(r'^(add|sub)(c?)(\.cc)?\.u(32|64)$', opc)
            if mm:
                kind, usec, setc, w = mm.group(1), bool(mm.group(2)), bool(mm.group(3)), int(mm.group(4))
                if pred and (usec or setc):
                    raise PtxError('predicated carry instruction')
                d, a, b = dst(args[0]), val(args[1], w), val(args[2], w)
                T = 'uint%d_t' % w
                cin = '(%s)cf' % T if usec else '(%s)0' % T
                if kind == 'add':
                    code.append('%s{ %s x_ = %s, y_ = %s, c_ = %s; %s s_ = (%s)(x_ + y_); %s r_ = (%s)(s_ + c_); %s %s = r_; }' % (
                        g, T, a, b, cin, T, T, T, T, 'cf = (s_ < x_) || (r_ < s_);' if setc else '', d))
                else:
                    code.append('%s{ %s x_ = %s, y_ = %s, c_ = %s; %s s_ = (%s)(x_ - y_); %s r_ = (%s)(s_ - c_); %s %s = r_; }' % (
                        g, T, a, b, cin, T, T, T, T, 'cf = (x_ < y_) || (s_ < c_);' if setc else '', d))
                continue
            mm = re.match(r'^mul\.(lo|hi)\.u32$', opc)
            if mm:
                d, a, b = dst(args[0]), val(args[1], 32), val(args[2], 32)
                sel = '(uint32_t)p_' if mm.group(1) == 'lo' else '(uint32_t)(p_ >> 32)'
                code.append('%s{ uint64_t p_ = vf_mul32(%s, %s); %s = %s; }' % (g, a, b, d, sel))
                continue
            mm = re.match(r'^mad(c?)\.(lo|hi)(\.cc)?\.u32$', opc)
            if mm:
                usec, half, setc = bool(mm.group(1)), mm.group(2), bool(mm.group(3))
                d, a, b, c = dst(args[0]), val(args[1], 32), val(args[2], 32), val(args[3], 32)
                sel = '(uint32_t)p_' if half == 'lo' else '(uint32_t)(p_ >> 32)'
                code.append('%s{ uint64_t p_ = vf_mul32(%s, %s); uint32_t x_ = %s, y_ = %s, c_ = %s; uint32_t s_ = x_ + y_; uint32_t r_ = s_ + c_; %s %s = r_; }' % (
                    g, a, b, sel, c, '(uint32_t)cf' if usec else '0u', 'cf = (s_ < x_) || (r_ < s_);' if setc else '', d))
                continue
            mm = re.match(r'^setp\.(eq|ne)\.(u32|s32)$', opc)
            if mm:
                p = re.match(r'^%(\w+)$', args[0])
                if not p:
                    raise PtxError('setp destination %r' % args[0])
                cmp_ = '==' if mm.group(1) == 'eq' else '!='
                code.append('%spr_%s = (%s %s %s);' % (g, p.group(1), val(args[1], 32), cmp_, val(args[2], 32)))
                continue
            if opc == 'mov.b64':
                mv = re.match(r'^\{\s*(%\d+)\s*,\s*(%\d+)\s*\}$', args[1]) if len(args) == 2 else None
                if len(args) == 3 and args[1].startswith('{') and args[2].endswith('}'):
                    lo, hi = args[1][1:].strip(), args[2][:-1].strip()
                    code.append('%s%s = ((uint64_t)%s << 32) | (uint64_t)%s;' % (g, dst(args[0]), val(hi, 32), val(lo, 32)))
                elif mv:
                    code.append('%s%s = ((uint64_t)%s << 32) | (uint64_t)%s;' % (g, dst(args[0]), val(mv.group(2), 32), val(mv.group(1), 32)))
                else:
                    code.append('%s%s = %s;' % (g, dst(args[0]), val(args[1], 64)))
                continue
            if opc == 'selp.u64':
                p = re.match(r'^%(\w+)$', args[3])
                code.append('%s%s = pr_%s ? %s : %s;' % (g, dst(args[0]), p.group(1), val(args[1], 64), val(args[2], 64)))
                continue
            if opc == 'trap':
                code.append('%s__CPROVER_assert(0, "ptx trap reached");' % g)
                continue
            raise PtxError('instruction %r not in table' % opc)
        for i, (cons, expr) in enumerate(outs):
            code.append('(%s) = o%d_%d;' % (expr, u, i))
        return '\n    '.join(code)


def translate_body(body, ptx):
    masked = mask_noncode(body)
    out, pos = [], 0
    for m in re.finditer(r'\basm\s*\(', masked):
        po = m.end() - 1
        pc = match_close(masked, po, '(', ')')
        end = body.index(';', pc) + 1
        out.append(body[pos:m.start()])
        txt = body[po + 1:pc]
        # predicate scopes span several asm statements: `{ .reg.pred %p;` opens a C block, `}` closes it
        out.append('/* ptx */ ' + ptx.stmt(txt))
        pos = end
    out.append(body[pos:])
    return ''.join(out)
