"""E-asm: mechanical transliteration of the GCC extended-asm statements of
goldilocks_base_field_scalar.hpp into C statements, through a fixed instruction table.

Anything outside the table raises AsmError (the run then exits 2, never a violation).

Semantics encoded (AT&T operand order `op src, dst`):
  registers  : uint64_t locals vf_<reg>; a 32-bit name (%eXX / %rNNd) reads the low half and a write to
               it clears the upper half (x86-64 rule)
  CF         : one bool vf_cf; every table instruction that architecturally writes CF updates it, `mov`
               and `cmovc` leave it alone; only CF is ever read (cmovc, jnc, adc)
  operands   : outputs are numbered first, then inputs (GCC numbering).  "r" inputs are read once before
               the block into vf_op<k> (GCC loads them into registers distinct from early-clobber outputs
               and from the clobber list); "m" inputs are read at the instruction (8 bytes at the lvalue);
               "=&a"/"=&d" outputs are the registers rax/rdx, stored once after the block.
  mul r/m64  : rdx:rax = rax * src  via  vf_x86_mul64(&rax,&rdx,src)  (exact product or an abstract
               (hi,lo) pair, chosen by the proof unit); CF = (rdx != 0)
"""
import re


class AsmError(Exception):
    pass


REG64 = ['rax', 'rbx', 'rcx', 'rdx', 'rsi', 'rdi', 'r8', 'r9', 'r10', 'r11', 'r12', 'r13', 'r14', 'r15']
REG32 = {'eax': 'rax', 'ebx': 'rbx', 'ecx': 'rcx', 'edx': 'rdx', 'esi': 'rsi', 'edi': 'rdi'}
for _i in range(8, 16):
    REG32['r%dd' % _i] = 'r%d' % _i

TABLE = ['xor', 'mov', 'add', 'sub', 'adc', 'cmovc', 'jnc', 'rol', 'mul', 'mulq']


def split_top(s, sep):
    """split s at separator characters that are outside parentheses and string literals"""
    out, depth, cur, i, instr = [], 0, '', 0, False
    while i < len(s):
        c = s[i]
        if instr:
            cur += c
            if c == '\\':
                cur += s[i + 1]
                i += 1
            elif c == '"':
                instr = False
        elif c == '"':
            instr = True
            cur += c
        elif c in '([{':
            depth += 1
            cur += c
        elif c in ')]}':
            depth -= 1
            cur += c
        elif c == sep and depth == 0:
            out.append(cur)
            cur = ''
        else:
            cur += c
        i += 1
    out.append(cur)
    return out


def strip_comments(s):
    s = re.sub(r'/\*.*?\*/', ' ', s, flags=re.S)
    s = re.sub(r'//[^\n]*', ' ', s)
    return s


def parse_operands(txt):
    ops = []
    txt = txt.strip()
    if not txt:
        return ops
    for part in split_top(txt, ','):
        m = re.match(r'\s*"([^"]*)"\s*\((.*)\)\s*$', part, re.S)
        if not m:
            raise AsmError('cannot parse asm operand: %r' % part)
        ops.append((m.group(1), m.group(2).strip()))
    return ops


class Translator:
    def __init__(self, uid):
        self.uid = uid

    def translate(self, asm_text):
        """asm_text: the text between `__asm__(` and the matching `)` (exclusive)."""
        body = strip_comments(asm_text)
        sections = split_top(body, ':')
        if len(sections) < 3:
            raise AsmError('asm statement without outputs/inputs sections')
        template = ''.join(re.findall(r'"((?:[^"\\]|\\.)*)"', sections[0]))
        outs = parse_operands(sections[1])
        ins = parse_operands(sections[2])
        clobbers = re.findall(r'"%?(\w+)"', sections[3]) if len(sections) > 3 else []
        insns = [x.strip() for x in re.split(r'\\n\\t|\\n|;', template)]
        insns = [x for x in insns if x]

        used_regs = set()
        pre, post, code = [], [], []
        opmap = {}  # operand number -> ('reg', name) | ('val', cexpr) | ('mem', cexpr)
        n = 0
        for cons, expr in outs:
            c = cons.replace('=', '').replace('&', '').replace('+', '')
            if '&' not in cons or '=' not in cons:
                raise AsmError('output constraint %r: only early-clobber write-only outputs are in the table' % cons)
            reg = {'a': 'rax', 'd': 'rdx', 'b': 'rbx', 'c': 'rcx'}.get(c)
            if reg is None:
                raise AsmError('output constraint %r not in table' % cons)
            opmap[n] = ('reg', reg)
            used_regs.add(reg)
            post.append('(%s) = vf_%s;' % (expr, reg))
            n += 1
        for cons, expr in ins:
            if cons == 'r':
                pre.append('const uint64_t vf_op%d = (uint64_t)(%s);' % (n, expr))
                opmap[n] = ('val', 'vf_op%d' % n)
            elif cons == 'm':
                opmap[n] = ('mem', '(*(const uint64_t *)&(%s))' % expr)
            else:
                raise AsmError('input constraint %r not in table' % cons)
            n += 1

        def rd(tok):
            tok = tok.strip()
            m = re.match(r'^%(\d+)$', tok)
            if m:
                k = int(m.group(1))
                if k not in opmap:
                    raise AsmError('operand %%%d out of range' % k)
                kind, v = opmap[k]
                return 'vf_' + v if kind == 'reg' else v
            m = re.match(r'^%%(\w+)$', tok)
            if m:
                r = m.group(1)
                if r in REG64:
                    used_regs.add(r)
                    return 'vf_' + r
                if r in REG32:
                    used_regs.add(REG32[r])
                    return '((uint64_t)(uint32_t)vf_%s)' % REG32[r]
                raise AsmError('register %%%s not in table' % r)
            m = re.match(r'^\$(\d+|0x[0-9a-fA-F]+)$', tok)
            if m:
                return '((uint64_t)%sULL)' % m.group(1)
            raise AsmError('operand %r not in table' % tok)

        def wr(tok):
            """returns (lvalue, is32, width_wrap) for a destination register"""
            tok = tok.strip()
            m = re.match(r'^%(\d+)$', tok)
            if m:
                k = int(m.group(1))
                kind, v = opmap.get(k, (None, None))
                if kind != 'reg':
                    raise AsmError('destination %%%d is not a register output' % k)
                return 'vf_' + v, False
            m = re.match(r'^%%(\w+)$', tok)
            if m:
                r = m.group(1)
                if r in REG64:
                    used_regs.add(r)
                    return 'vf_' + r, False
                if r in REG32:
                    used_regs.add(REG32[r])
                    return 'vf_' + REG32[r], True
            raise AsmError('destination %r not in table' % tok)

        labels_defined, labels_used = set(), set()
        cf_defined = False
        for ins_ in insns:
            m = re.match(r'^(\d+):$', ins_)
            if m:
                lab = 'vf_L%s_%s' % (m.group(1), self.uid)
                labels_defined.add(lab)
                code.append('%s: ;' % lab)
                continue
            m = re.match(r'^(\w+)\s*(.*)$', ins_)
            op, args = m.group(1), [a.strip() for a in split_top(m.group(2), ',')] if m.group(2).strip() else []
            if op not in TABLE:
                raise AsmError('instruction %r not in table' % op)
            if op == 'xor':
                if len(args) != 2:
                    raise AsmError('xor arity')
                d, is32 = wr(args[1])
                if is32:
                    raise AsmError('32-bit xor not in table')
                code.append('%s = %s ^ %s; vf_cf = false;' % (d, d, rd(args[0])))
                cf_defined = True
            elif op == 'mov':
                d, is32 = wr(args[1])
                s = rd(args[0])
                if is32:
                    # source must be a 32-bit register as well
                    if not re.match(r'^%%(e\w\w|r\d+d)$', args[0]):
                        raise AsmError('mov to 32-bit register from non-32-bit source')
                    code.append('%s = %s;' % (d, s))  # zero-extending write
                else:
                    if re.match(r'^%%(e\w\w|r\d+d)$', args[0]):
                        raise AsmError('mov from 32-bit register to 64-bit destination')
                    code.append('%s = %s;' % (d, s))
            elif op in ('add', 'sub', 'adc'):
                d, is32 = wr(args[1])
                if is32:
                    raise AsmError('32-bit %s not in table' % op)
                s = rd(args[0])
                if op == 'add':
                    code.append('{ const uint64_t vf_s = %s; const uint64_t vf_t = %s + vf_s; vf_cf = vf_t < vf_s; %s = vf_t; }' % (s, d, d))
                elif op == 'sub':
                    code.append('{ const uint64_t vf_s = %s; vf_cf = %s < vf_s; %s = %s - vf_s; }' % (s, d, d, d))
                else:
                    if not cf_defined:
                        raise AsmError('adc reads CF before any table instruction wrote it')
                    code.append('{ const uint64_t vf_s = %s; const uint64_t vf_c = vf_cf ? 1 : 0; const uint64_t vf_t = %s + vf_s; const uint64_t vf_u = vf_t + vf_c; vf_cf = (vf_t < vf_s) || (vf_u < vf_t); %s = vf_u; }' % (s, d, d))
                cf_defined = True
            elif op == 'cmovc':
                if not cf_defined:
                    raise AsmError('cmovc reads CF before any table instruction wrote it')
                d, is32 = wr(args[1])
                if is32:
                    raise AsmError('32-bit cmovc not in table')
                code.append('if (vf_cf) %s = %s;' % (d, rd(args[0])))
            elif op == 'jnc':
                if not cf_defined:
                    raise AsmError('jnc reads CF before any table instruction wrote it')
                m = re.match(r'^(\d+)f$', args[0])
                if not m:
                    raise AsmError('jnc target %r: only forward local labels are in the table' % args[0])
                lab = 'vf_L%s_%s' % (m.group(1), self.uid)
                if lab in labels_defined:
                    raise AsmError('forward jump to an already defined label')
                labels_used.add(lab)
                code.append('if (!vf_cf) goto %s;' % lab)
            elif op == 'rol':
                d, is32 = wr(args[1])
                m = re.match(r'^\$(\d+)$', args[0])
                if is32 or not m or not (0 < int(m.group(1)) < 64):
                    raise AsmError('rol form not in table')
                k = int(m.group(1))
                code.append('%s = (%s << %d) | (%s >> %d); vf_cf = (%s & 1) != 0;' % (d, d, k, d, 64 - k, d))
                cf_defined = True
            elif op in ('mul', 'mulq'):
                if len(args) != 1:
                    raise AsmError('mul arity')
                used_regs.add('rax')
                used_regs.add('rdx')
                code.append('vf_x86_mul64(&vf_rax, &vf_rdx, %s); vf_cf = vf_rdx != 0;' % rd(args[0]))
                cf_defined = True
        if labels_used - labels_defined:
            raise AsmError('jump to undefined label')
        for r in used_regs:
            out_regs = [v for (k, v) in opmap.values() if k == 'reg']
            if r not in out_regs and r not in clobbers:
                raise AsmError('register %s used but neither an output nor in the clobber list' % r)
        decl = 'uint64_t ' + ', '.join('vf_%s = vf_nondet_u64()' % r for r in sorted(used_regs)) + '; bool vf_cf = vf_nondet_bool();'
        # registers start with arbitrary contents (whatever the compiler left there)
        return '{ /* E-asm */ ' + ' '.join(pre) + ' ' + decl + '\n        ' + '\n        '.join(code) + '\n        ' + ' '.join(post) + ' }', insns


PRELUDE = '''
/* E-asm prelude (inserted by the extraction filter) */
extern "C" void vf_x86_mul64(uint64_t *rax, uint64_t *rdx, uint64_t src);
extern "C" uint64_t vf_nondet_u64(void);
extern "C" bool vf_nondet_bool(void);
'''
