"""M2: mechanical C-ification of a named function (only where loop contracts are needed; CBMC's C++ grammar rejects them).
Fixed token rules, applied to the function text cut out of /repo/src by name and brace matching:
   Goldilocks::Element -> GElement ; std:: -> (nothing) ; Class::name( -> Class_name( for the listed callees ;
   `sizeof(Goldilocks::Element)` follows from the first rule ; memcpy/memset -> vf_memcpy/vf_memset (element-wise L0 model) ;
   (Goldilocks::Element(&)[N])X -> (&X) ;  side-car loop contracts inserted after the header of the loop with the given ordinal.
What is dropped: `static`/class scope, `#pragma omp` lines (kept as comments), default arguments."""
import re
from . import extract


def cify(f, fn, qualname, cname, renames=(), loop_contracts=None, ptypes=None, extra_rules=(), cut_loops=None, in_class=False):
    d = f.get_function(fn, qualname, ptypes, in_class=in_class)
    head = d['head']
    ret = re.sub(r'\b(static|inline)\b', '', head).strip()
    params = d['params']
    body = d['body']
    text = '%s %s(%s)\n%s' % (ret, cname, params, body)
    rules = [(r'Goldilocks::Element', 'GElement'), (r'std\s*::\s*', ''), (r'\bmemcpy\(', 'vf_memcpy('), (r'\bmemset\(', 'vf_memset('),
             (r'\(GElement\s*\(&\)\s*\[\w+\]\)\s*', '&'), (r'^\s*#pragma omp[^\n]*', lambda m: '/* %s */' % m.group(0).strip())]
    for pat, rep in list(rules) + list(extra_rules):
        text = re.sub(pat, rep, text, flags=re.M)
    for old, new in renames:
        text, n = re.subn(r'(?<![\w:])%s\s*\(' % re.escape(old), new + '(', text)
    # default arguments in the parameter list
    text = re.sub(r'\s*=\s*[\w.]+(?=\s*[,)])', '', text, count=0) if '=' in params else text
    if cut_loops:
        # M2-outline: the loop statement with the given ordinal (header + body) is cut out and replaced by the given call text
        masked = extract.mask_noncode(text)
        loops = [m for m in re.finditer(r'\b(for|while)\s*\(', masked)]
        for k in sorted(cut_loops, reverse=True):
            if k >= len(loops):
                raise extract.ExtractError('M2-outline: %s: loop ordinal %d not found' % (qualname, k))
            m = loops[k]
            pc = extract.match_close(masked, m.end() - 1, '(', ')')
            j = pc + 1
            while masked[j] in ' \t\n':
                j += 1
            if masked[j] != '{':
                raise extract.ExtractError('M2-outline: %s: loop %d has no braced body' % (qualname, k))
            e = extract.match_close(masked, j, '{', '}')
            text = text[:m.start()] + cut_loops[k] + text[e + 1:]
            masked = extract.mask_noncode(text)
            loops = [mm for mm in re.finditer(r'\b(for|while)\s*\(', masked)]
        f.note('M2-outline', fn, len(cut_loops), 0, 0, '%s: loop ordinal(s) %s replaced by monitor calls' % (qualname, sorted(cut_loops)))
    if loop_contracts:
        masked = extract.mask_noncode(text)
        loops = [m for m in re.finditer(r'\b(for|while)\s*\(', masked)]
        out, pos = [], 0
        for k, m in enumerate(loops):
            if k not in loop_contracts:
                continue
            pc = extract.match_close(masked, m.end() - 1, '(', ')')
            out.append(text[pos:pc + 1])
            out.append('\n' + loop_contracts[k] + '\n')
            pos = pc + 1
        out.append(text[pos:])
        missing = [k for k in loop_contracts if k >= len(loops)]
        if missing:
            raise extract.ExtractError('M2: %s: loop ordinal(s) %s not found (function has %d loops)' % (qualname, missing, len(loops)))
        text = ''.join(out)
    f.note('M2-cify', fn, 1, 0, len(text), '%s -> %s (line %d); loop contracts at ordinals %s' % (qualname, cname, d['line'], sorted(loop_contracts or {})))
    return '/* M2: mechanically C-ified from %s line %d (%s) */\n' % (fn, d['line'], qualname) + text + '\n'


def umul_rewrite(text, variables):
    """M2-mul (generic): every product chain whose factors are all size variables of the function (or a parenthesised
    difference of them) is rewritten, left-associatively, into nested UMUL(a, b) applications of an uninterpreted function;
    products with a constant factor (sizeof, CAPACITY, RATE, literals) are left alone.  Returns (text, number of chains)."""
    var = r'(?:%s)' % '|'.join(sorted(map(re.escape, variables), key=len, reverse=True))
    factor = r'(?:\b%s\b|\(\s*\b%s\b\s*-\s*(?:\b%s\b|\d+)\s*\))' % (var, var, var)
    chain = re.compile(r'(?<![\w.)\]])(%s(?:\s*\*\s*%s)+)(?!\s*\*)(?![\w(])' % (factor, factor))
    n = [0]
    def rep(m):
        parts = [x.strip() for x in re.split(r'\s*\*\s*', m.group(1))]
        e = parts[0]
        for q in parts[1:]:
            e = 'UMUL(%s, %s)' % (e, q)
        n[0] += 1
        return e
    return chain.sub(rep, text), n[0]


def loop_body(text, ordinal):
    """text of the braced body of the loop with the given ordinal in an already C-ified function text"""
    masked = extract.mask_noncode(text)
    loops = [m for m in re.finditer(r'\b(for|while)\s*\(', masked)]
    if ordinal >= len(loops):
        raise extract.ExtractError('M2-body: loop ordinal %d not found' % ordinal)
    m = loops[ordinal]
    pc = extract.match_close(masked, m.end() - 1, '(', ')')
    j = pc + 1
    while masked[j] in ' \t\n':
        j += 1
    e = extract.match_close(masked, j, '{', '}')
    return text[j:e + 1], text[m.end():pc]
