"""C05 - extendPol structure (units shared with C03, see props/C03)."""
import os, sys, re
sys.path.insert(0, os.path.dirname(os.path.dirname(os.path.dirname(os.path.abspath(__file__)))))
from vf.driver import Group, Unit, import_units
PROPERTY = 'C05'
LEVEL = 'proof'
GROUPS, UNITS = {}, []
_g, _u = import_units('C03', lambda n: re.match(r'extendPol$|NTT_iters_schedule$|NTT_butterfly$|INTT_wrapper$|reversePermutation(_inplace_ext)?$|BR$', n))
GROUPS.update(_g); UNITS += _u

TRUSTED_BASE = ['units of props/C03 (M2 C-ification, outlined batch data path, ghost monitors)']
ASSUMPTIONS = ['object domain s <= 32, transform size 2^k with k <= min(s, 30)', 'allocation failure (malloc returning NULL) is not modelled']
EXPLANATION = 'Structural contract of extendPol from an arbitrary object state: extension object for (N_ext, N_ext/N), inverse transform of size N with extend=true using the coset table of THIS N, forward transform of size N_ext in place on the output, scratch handling; plus the schedule contract of the two transforms.'
MANIFEST_ENTRY = dict(category='proof', technique='CBMC on the C-ified extendPol with ghost monitors for constructor / computeR / INTT / extension NTT, arbitrary prior state under the representation invariant', text='Structural contract of extendPol from an arbitrary object state: extension object for (N_ext, N_ext/N), inverse transform of size N with extend=true using the coset table of THIS N, forward transform of size N_ext in place on the output, scratch handling; plus the schedule contract of the two transforms.', note='The low-degree-extension equation out[k] = f(7*w^k) is NOT proved; the in-place bit reversal with extension > 1 (reachable for an even clamped phase count, e.g. NTT_Goldilocks n(2); n.extendPol(a,a,4,2,1)) is a KNOWN FINDING (F3: assert(0) "Option not implemented yet"), see known_findings.json.')
