// C07 native oracle: real linear_hash variants on an exact-size heap buffer (ASan catches reads outside the declared length)
// against a reference sponge built from the library's own permutation (the permutation itself is C06's subject).
#include <cstdint>
#include <cstdio>
#include <cstring>
#include <map>
#include <string>
#include <vector>
#include "poseidon_goldilocks.hpp"
typedef std::map<std::string, uint64_t> vf_inputs;
static void ref_sponge(Goldilocks::Element *out, const Goldilocks::Element *in, uint64_t size)
{
    if (size <= 4) { for (uint64_t k = 0; k < 4; k++) out[k].fe = k < size ? in[k].fe : 0; return; }
    Goldilocks::Element st[12]; for (int k = 0; k < 12; k++) st[k].fe = 0;
    for (uint64_t off = 0; off < size; off += 8) { Goldilocks::Element blk[12]; uint64_t n = size - off < 8 ? size - off : 8;
        for (uint64_t k = 0; k < 8; k++) blk[k].fe = k < n ? in[off + k].fe : 0; for (int k = 0; k < 4; k++) blk[8 + k].fe = off == 0 ? 0 : st[k].fe;
        PoseidonGoldilocks::hash_full_result_seq(st, blk); }
    memcpy(out, st, 32);
}
static int run_size(const std::string &u, uint64_t size);
int vf_replay(const std::string &u, vf_inputs &in)
{
    uint64_t size = in["size"];
    if (size <= (1u << 20)) { int r = run_size(u, size); if (r) return r; }
    // the verifier's length is an arbitrary representative of a failing class (often astronomically large, or it falsifies an
    // inductive step rather than a run): look for a concrete failing length among the small ones
    printf("length %llu from the verifier did not reproduce (or is too large); scanning lengths 0..200\n", (unsigned long long)size);
    for (uint64_t s2 = 0; s2 <= 200; s2++) { int r = run_size(u, s2); if (r == 1) return 1; if (r == 3) return 3; }
    return 0;
}
static int run_size(const std::string &u, uint64_t size)
{
    int rows = u == "linear_hash_avx512" ? 2 : 1;
    Goldilocks::Element *buf = new Goldilocks::Element[rows * size ? rows * size : 1];  // exact extent (ASan red zones right after)
    if (rows * size == 0) { delete[] buf; buf = (Goldilocks::Element *)malloc(0); }
    for (uint64_t k = 0; k < rows * size; k++) buf[k].fe = 0x9E3779B97F4A7C15ULL * (k + 1) + 12345;
    Goldilocks::Element out[8], want[8];
    if (u == "linear_hash_seq") PoseidonGoldilocks::linear_hash_seq(out, buf, size);
    else if (u == "linear_hash") PoseidonGoldilocks::linear_hash(out, buf, size);
#ifdef __AVX512__
    else if (u == "linear_hash_avx512") PoseidonGoldilocks::linear_hash_avx512(out, buf, size);
#endif
    else return 3;
    int bad = 0;
    for (int r = 0; r < rows; r++) { ref_sponge(want + 4 * r, buf + r * size, size);
        for (int k = 0; k < 4; k++) if (Goldilocks::toU64(out[4 * r + k]) != Goldilocks::toU64(want[4 * r + k])) { bad = 1; printf("%s size %llu row %d digest element %d: got %llu, sponge gives %llu\n", u.c_str(), (unsigned long long)size, r, k, (unsigned long long)out[4 * r + k].fe, (unsigned long long)want[4 * r + k].fe); } }
    if (rows * size == 0) free(buf); else delete[] buf;
    return bad;
}
