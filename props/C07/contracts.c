/* C07: linear_hash is the rate-8 capacity-4 sponge for every input length.
 * Route M2: the real function text is C-ified on every run (src/gen_linear_hash*.c in the scratch copy, see vf/cify.py),
 * the side-car loop contract below is inserted after the `while (remaining)` header, and the permutation
 * hash_full_result* is replaced by a GHOST MONITOR: every call must present exactly the next block of the sponge schedule
 *     block k = input[8k .. 8k+8) zero-padded to 8,  capacity = 0 for k = 0, else the first four outputs of call k-1
 * and returns twelve arbitrary values.  After the call: exactly ceil(size/8) permutations were made, the digest is the first
 * four outputs of the last one; for size <= 4 the digest is the zero-padded input and no permutation is made.  The input is
 * allocated with exactly `size` elements, so any read outside the declared length is a pointer failure. */
#include "spec.h"
#define VF_SENTINEL __CPROVER_assert(0, "vf_sentinel: harness reaches the point after the call")
typedef unsigned long uint64_t;
typedef unsigned long size_t;
typedef struct { uint64_t fe; } GElement;
#define RATE 8
#define CAPACITY 4
#define SPONGE_WIDTH 12
#define MAXSIZE (1UL << 40)

/* L0 model of memcpy/memset for whole 8-byte elements (every use in these functions moves whole elements, at most 12 of them;
 * written without loops because the calls sit inside a loop that is closed by a contract) */
/* The input array of symbolic length is never materialised as a CBMC array (that encoding does not scale): its contents are
 * the uninterpreted function INPUT(index); a copy whose source lies in the input object reads INPUT at the element offset
 * of the source pointer, and asserts that the element lies inside the declared length (this is the out-of-bounds check). */
uint64_t __CPROVER_uninterpreted_input(uint64_t);
#define INPUT(i) __CPROVER_uninterpreted_input(i)
extern const GElement *g_input; extern uint64_t g_size, g_rows;
#define CP1(i) if (n / 8 > (i)) { if (from_input) { __CPROVER_assert(base + (i) < g_rows * g_size, "read inside the declared input length"); dd[i].fe = INPUT(base + (i)); } else dd[i] = ss[i]; }
#define CP1N(i) if (n / 8 > (i)) dd[i] = ss[i];   /* element beyond the per-copy input limit MAXIN: never from the input (asserted) */
#define ZE1(i) if (n / 8 > (i)) dd[i].fe = 0;
#define REP12(M) M(0) M(1) M(2) M(3) M(4) M(5) M(6) M(7) M(8) M(9) M(10) M(11)
#define REP24(M) REP12(M) M(12) M(13) M(14) M(15) M(16) M(17) M(18) M(19) M(20) M(21) M(22) M(23)
/* MAXIN = most elements one copy may take FROM THE INPUT.  Every INPUT(.) term is an uninterpreted-function application and the SAT
 * encoding is quadratic in their number.  The two-row state is interleaved in groups of four ([A0-3|B0-3|A4-7|B4-7|capA|capB]), so a
 * contiguous piece of one row is at most four elements there: with MAXIN 4 instead of 16 the all-lengths proof of the AVX-512 variant
 * takes 4 min instead of 25 (13 M -> 2.8 M clauses).  A longer copy from the input fails the `vf_model_limit` assertion, which the
 * driver reports as "undecided" (exit 2), not as a violation. */
#ifdef VF_AVX512
#define REPCP(M) REP12(M) M(12) M(13) M(14) M(15)
#define MAXCP 128
#define MAXIN 4
#define REPIN(M) M(0) M(1) M(2) M(3)
#define REPREST(M) M(4) M(5) M(6) M(7) M(8) M(9) M(10) M(11) M(12) M(13) M(14) M(15)
#else
#define REPCP(M) REP12(M)
#define MAXCP 96
#define MAXIN 12
#define REPIN(M) REP12(M)
#define REPREST(M)
#endif
/* typed element pointers (every argument in these functions is a GElement pointer): no byte-level reinterpretation */
static void vf_memcpy(GElement *dd, const GElement *ss, size_t n)
{ __CPROVER_assert((n & 7) == 0 && n <= MAXCP, "vf_memcpy: whole elements, at most 12 (16 in the AVX-512 unit)");
  _Bool from_input = n > 0 && __CPROVER_same_object(ss, g_input); uint64_t base = 0;
  if (from_input) { __CPROVER_assert((__CPROVER_POINTER_OFFSET(ss) & 7) == 0, "element-aligned source"); base = (uint64_t)__CPROVER_POINTER_OFFSET(ss) / 8; }
  __CPROVER_assert(!from_input || n <= 8 * MAXIN, "vf_model_limit: one copy takes at most MAXIN elements from the input (12; 4 in the AVX-512 unit)");
  REPIN(CP1) REPREST(CP1N) }
static void vf_memset(GElement *dd, int c, size_t n)
{ __CPROVER_assert((n & 7) == 0 && n <= MAXCP && c == 0, "vf_memset: whole elements, zero fill, at most 12 (16)"); REPCP(ZE1) }

/* ---- ghost monitor of the permutation calls */
const GElement *g_input; uint64_t g_size, g_rows = 1; uint64_t g_calls; _Bool g_bad; uint64_t g_prev[8];
uint64_t vf_nondet_u64(void) { uint64_t x; return x; }
static void perm_monitor(GElement *out, const GElement *in)
{
  uint64_t off = g_calls * 8;
  if (g_calls >= (1UL << 40) || off >= g_size) g_bad = 1;
  else
  {
    uint64_t n = g_size - off < RATE ? g_size - off : RATE;
#define CHK_R(k) { uint64_t want = 0; if ((uint64_t)(k) < n) want = INPUT(off + (k)); if (in[k].fe != want) g_bad = 1; }
#define CHK_C(k) { uint64_t want = g_calls == 0 ? 0 : g_prev[k]; if (in[RATE + (k)].fe != want) g_bad = 1; }
    CHK_R(0) CHK_R(1) CHK_R(2) CHK_R(3) CHK_R(4) CHK_R(5) CHK_R(6) CHK_R(7) CHK_C(0) CHK_C(1) CHK_C(2) CHK_C(3)
  }
#define OUT1(k) { uint64_t v = vf_nondet_u64(); out[k].fe = v; if ((k) < CAPACITY) g_prev[(k) < CAPACITY ? (k) : 0] = v; }
  REP12(OUT1)
  g_calls++;
}
void PoseidonGoldilocks_hash_full_result_seq(GElement *out, const GElement *in) { perm_monitor(out, in); }
void PoseidonGoldilocks_hash_full_result(GElement *out, const GElement *in) { perm_monitor(out, in); }

/* side-car loop contract of `while (remaining)` (inserted by M2 as LOOP_CONTRACT_SPONGE) */
#define LOOP_CONTRACT_SPONGE \
  __CPROVER_assigns(remaining, __CPROVER_object_whole(state), g_calls, g_bad, __CPROVER_object_whole(g_prev)) \
  __CPROVER_loop_invariant(remaining <= size && !g_bad && g_calls <= (size + 7) / 8) \
  __CPROVER_loop_invariant(size - remaining == (8 * g_calls < size ? 8 * g_calls : size)) \
  __CPROVER_loop_invariant(g_calls == 0 || (state[0].fe == g_prev[0] && state[1].fe == g_prev[1] && state[2].fe == g_prev[2] && state[3].fe == g_prev[3])) \
  __CPROVER_decreases(remaining)

/* ---- AVX-512 two-at-a-time variant: rows A = input[0..size), B = input[size..2size); interleaved state layout
 * [A0-3 | B0-3 | A4-7 | B4-7 | capA | capB]; each row must follow the same sponge schedule as the scalar function */
#define CHK2(k) { uint64_t wa = 0, wb = 0, wa2 = 0, wb2 = 0; \
    if ((uint64_t)(k) < n) { wa = INPUT(off + (k)); wb = INPUT(g_size + off + (k)); } if ((uint64_t)(k) + 4 < n) { wa2 = INPUT(off + 4 + (k)); wb2 = INPUT(g_size + off + 4 + (k)); } \
    if (in[k].fe != wa || in[4 + (k)].fe != wb || in[8 + (k)].fe != wa2 || in[12 + (k)].fe != wb2) g_bad = 1; }
#define CHKC2(k) { uint64_t want = g_calls == 0 ? 0 : g_prev[k]; if (in[16 + (k)].fe != want) g_bad = 1; }
#define OUT2(k) { uint64_t v = vf_nondet_u64(); out[k].fe = v; if ((k) < 8) g_prev[(k) < 8 ? (k) : 0] = v; }
void PoseidonGoldilocks_hash_full_result_avx512(GElement *out, const GElement *in)
{
  uint64_t off = g_calls * 8;
  if (g_calls >= (1UL << 40) || off >= g_size) g_bad = 1;
  else { uint64_t n = g_size - off < RATE ? g_size - off : RATE; CHK2(0) CHK2(1) CHK2(2) CHK2(3) CHKC2(0) CHKC2(1) CHKC2(2) CHKC2(3) CHKC2(4) CHKC2(5) CHKC2(6) CHKC2(7) }
  REP24(OUT2)
  g_calls++;
}
#define LOOP_CONTRACT_SPONGE512 \
  __CPROVER_assigns(remaining, __CPROVER_object_whole(state), g_calls, g_bad, __CPROVER_object_whole(g_prev)) \
  __CPROVER_loop_invariant(remaining <= size && !g_bad && g_calls <= (size + 7) / 8) \
  __CPROVER_loop_invariant(size - remaining == (8 * g_calls < size ? 8 * g_calls : size)) \
  __CPROVER_loop_invariant(g_calls == 0 || (state[0].fe == g_prev[0] && state[1].fe == g_prev[1] && state[2].fe == g_prev[2] && state[3].fe == g_prev[3] && \
                                            state[4].fe == g_prev[4] && state[5].fe == g_prev[5] && state[6].fe == g_prev[6] && state[7].fe == g_prev[7])) \
  __CPROVER_decreases(remaining)

#include "gen_linear_hash.c"

#ifdef VF_AVX512
void hl_PoseidonGoldilocks_linear_hash_avx512(void)
{
  uint64_t size; __CPROVER_assume(size <= MAXSIZE); uint64_t vf_insize = size; (void)vf_insize;
#ifdef VF_PASSTHROUGH_ONLY
  __CPROVER_assume(size <= CAPACITY);   /* quick-tier unit: lengths 0..4 only (the all-lengths unit runs in the thorough tier) */
#endif
  GElement *input = (GElement *)__CPROVER_allocate(0, 0); GElement output[2 * CAPACITY];
  g_input = input; g_size = size; g_rows = 2; g_calls = 0; g_bad = 0;
#ifdef VF_PASSTHROUGH_ONLY
  /* the five lengths are presented as literals, one call each: with a symbolic `size <= 4` the symbolic executor cannot discard the
   * sponge loop and the query carries its whole encoding (13 M clauses, 200-300 s, timed out under load); with a literal length the
   * branch `size <= CAPACITY` is decided during symbolic execution.  Same input set: every length 0..4, every content of both rows. */
  switch (size) { case 0: PoseidonGoldilocks_linear_hash_avx512(output, input, 0); break; case 1: PoseidonGoldilocks_linear_hash_avx512(output, input, 1); break;
    case 2: PoseidonGoldilocks_linear_hash_avx512(output, input, 2); break; case 3: PoseidonGoldilocks_linear_hash_avx512(output, input, 3); break;
    default: PoseidonGoldilocks_linear_hash_avx512(output, input, 4); break; }
#else
  PoseidonGoldilocks_linear_hash_avx512(output, input, size);
#endif
  __CPROVER_assert(!g_bad, "linear_hash_avx512.postcondition.1 (light): every permutation call absorbs the next block of BOTH rows, zero padded, with the right capacities");
  __CPROVER_assert(size <= CAPACITY ? g_calls == 0 : g_calls == (size + 7) / 8, "linear_hash_avx512.postcondition.2 (light): number of permutations");
  if (size > CAPACITY) { for (int k = 0; k < 8; k++) __CPROVER_assert(output[k].fe == g_prev[k], "linear_hash_avx512.postcondition.3 (light): digests = first four outputs of the last permutation, per row"); }
  else for (int k = 0; k < CAPACITY; k++) { uint64_t wa = 0, wb = 0; if ((uint64_t)k < size) { wa = INPUT((uint64_t)k); wb = INPUT(size + (uint64_t)k); }
    __CPROVER_assert(output[k].fe == wa && output[CAPACITY + k].fe == wb, "linear_hash_avx512.postcondition.4 (light): at most four elements per row are returned unchanged, zero padded"); }
  VF_SENTINEL;
}
#endif

#define HARNESS(fn) void hl_##fn(void) { \
  uint64_t size; __CPROVER_assume(size <= MAXSIZE); uint64_t vf_insize = size; (void)vf_insize; \
  GElement *input = (GElement *)__CPROVER_allocate(0, 0); /* abstract input object: contents are INPUT(.), every direct access is a pointer failure */ GElement output[CAPACITY]; \
  g_input = input; g_size = size; g_rows = 1; g_calls = 0; g_bad = 0; \
  fn(output, input, size); \
  __CPROVER_assert(!g_bad, #fn ".postcondition.1 (light): every permutation call absorbs the next block, zero padded, with the right capacity"); \
  __CPROVER_assert(size <= CAPACITY ? g_calls == 0 : g_calls == (size + 7) / 8, #fn ".postcondition.2 (light): number of permutations"); \
  if (size > CAPACITY) __CPROVER_assert(output[0].fe == g_prev[0] && output[1].fe == g_prev[1] && output[2].fe == g_prev[2] && output[3].fe == g_prev[3], #fn ".postcondition.3 (light): digest = first four outputs of the last permutation"); \
  else for (int k = 0; k < CAPACITY; k++) { uint64_t want = 0; if ((uint64_t)k < size) want = INPUT((uint64_t)k); __CPROVER_assert(output[k].fe == want, #fn ".postcondition.4 (light): at most four elements are returned unchanged, zero padded"); } \
  VF_SENTINEL; }
#ifndef VF_AVX512
HARNESS(PoseidonGoldilocks_linear_hash_seq)
HARNESS(PoseidonGoldilocks_linear_hash)
#endif
