"""C07 - linear_hash is the rate-8 capacity-4 sponge for every input length."""
import os, sys, re
sys.path.insert(0, os.path.dirname(os.path.dirname(os.path.dirname(os.path.abspath(__file__)))))
from vf.driver import Group, Unit, import_units
from vf import extract, cify

PROPERTY = 'C07'
LEVEL = 'proof'
P = 'poseidon_goldilocks.cpp'
def filt(repo_src, dst):
    f = extract.Filter(repo_src, dst)
    f.check_macros()
    ren = [('hash_full_result_seq', 'PoseidonGoldilocks_hash_full_result_seq'), ('hash_full_result', 'PoseidonGoldilocks_hash_full_result')]
    txt = cify.cify(f, P, 'PoseidonGoldilocks::linear_hash_seq', 'PoseidonGoldilocks_linear_hash_seq', ren, {0: 'LOOP_CONTRACT_SPONGE'})
    txt += cify.cify(f, P, 'PoseidonGoldilocks::linear_hash', 'PoseidonGoldilocks_linear_hash', ren, {0: 'LOOP_CONTRACT_SPONGE'})
    ren512 = [('hash_full_result_avx512', 'PoseidonGoldilocks_hash_full_result_avx512')]
    txt += cify.cify(f, P, 'PoseidonGoldilocks::linear_hash_avx512', 'PoseidonGoldilocks_linear_hash_avx512', ren512, {0: 'LOOP_CONTRACT_SPONGE512'})
    f.files = {'gen_linear_hash.c': txt}
    return f
GROUPS = {'m2': Group('m2', filt, c=['props/C07/contracts.c'], repo_cpp=[]), 'm2_512': Group('m2_512', filt, c=['props/C07/contracts.c'], defines=['VF_AVX512'], repo_cpp=[]),
          'm2_512p': Group('m2_512p', filt, c=['props/C07/contracts.c'], defines=['VF_AVX512', 'VF_PASSTHROUGH_ONLY'], repo_cpp=[])}
# the input object is abstract (zero-size, contents INPUT(.)): pointer arithmetic into it cannot be bounds-checked by CBMC; the explicit
# assertion 'read inside the declared input length' in the copy model takes the place of that check
CHK = ['--bounds-check', '--pointer-check', '--undefined-shift-check', '--signed-overflow-check', '--div-by-zero-check']
UNITS = [
    Unit('linear_hash_seq', 'm2', 'PoseidonGoldilocks_linear_hash_seq', harness='hl_PoseidonGoldilocks_linear_hash_seq', light=True, loops='contract',
         checks=CHK, flags=['--unwind', '14', '--unwinding-assertions'], functions=['PoseidonGoldilocks::linear_hash_seq (src/%s) [C-ified, loop contract]' % P], timeout=600),
    Unit('linear_hash', 'm2', 'PoseidonGoldilocks_linear_hash', harness='hl_PoseidonGoldilocks_linear_hash', light=True, loops='contract',
         checks=CHK, flags=['--unwind', '14', '--unwinding-assertions'], functions=['PoseidonGoldilocks::linear_hash (src/%s) [C-ified, loop contract]' % P], timeout=600),
    Unit('linear_hash_avx512', 'm2_512', 'PoseidonGoldilocks_linear_hash_avx512', harness='hl_PoseidonGoldilocks_linear_hash_avx512', light=True, loops='contract',
         checks=CHK, flags=['--unwind', '14', '--unwinding-assertions'], functions=['PoseidonGoldilocks::linear_hash_avx512 (src/%s) [C-ified, loop contract; two rows]' % P], timeout=1500,
         note='about 4 min; copies from the input limited to 4 elements each in the memcpy model (vf_model_limit), which is what made it fit the quick tier'),
    Unit('linear_hash_avx512_passthrough', 'm2_512p', 'PoseidonGoldilocks_linear_hash_avx512', harness='hl_PoseidonGoldilocks_linear_hash_avx512', light=True, loops='contract',
         checks=CHK, flags=['--unwind', '14', '--unwinding-assertions'], bounded='size in {0,1,2,3,4}, one call per literal length (pass-through branch of the two-row variant only; the all-lengths unit is linear_hash_avx512)', functions=['PoseidonGoldilocks::linear_hash_avx512, size <= 4 (src/%s)' % P], timeout=300, note='fast separate diagnosis of the pass-through branch (5 s); subsumed by linear_hash_avx512'),
]
TRUSTED_BASE = ['M2 C-ification token rules (vf/cify.py) and the element-wise memcpy/memset model', 'the permutation is abstracted by a ghost monitor returning arbitrary values (its own correctness is C06)',
                'CBMC loop-contract instrumentation (goto-instrument --apply-loop-contracts), cadical']
ASSUMPTIONS = ['size <= 2^40 elements (object-size limit of the memory model)']
EXPLANATION = 'All lengths: the loop is closed by an inductive invariant over the ghost monitor state; no unwinding bound on the input length.'
MANIFEST_ENTRY = dict(category='proof', technique='CBMC loop contracts on the mechanically C-ified function + ghost monitor of the permutation calls',
    text='For every length up to 2^40 the scalar, AVX2 and two-at-a-time AVX512 linear_hash perform exactly the sponge schedule (blocks of 8, zero padding, capacity feedback, digest = first four outputs) and read exactly the declared input; the pass-through for at most four elements is exact.',
    note='Permutation abstracted (C06 covers it); C-ification rules and memcpy model trusted.')
NATIVE_FLAGS = ['-mavx2', '-mavx512f', '-D__AVX512__']
NATIVE_SOURCES = []
ORACLE_SCANS = True
