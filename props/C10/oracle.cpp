// C10 native oracle: exp / div / inv on the real library vs __int128 reference (fork for the never-returning zero case)
#include <cstdint>
#include <cstdio>
#include <map>
#include <string>
#include <unistd.h>
#include <sys/wait.h>
#include "../../replay/ref.h"
typedef std::map<std::string, uint64_t> vf_inputs;
extern "C" { uint64_t p_exp_v(uint64_t, uint64_t); void p_exp(uint64_t *, uint64_t, uint64_t); uint64_t p_div_v(uint64_t, uint64_t); void p_div(uint64_t *, uint64_t, uint64_t);
  void p_div_oa(uint64_t *, uint64_t); uint64_t p_op_div(uint64_t, uint64_t); uint64_t p_inv_v(uint64_t); void p_inv(uint64_t *, uint64_t); }
static int returns_normally(const std::string &u, uint64_t a, uint64_t b, uint64_t *out)
{   // runs the call in a child: exit status 0 + value through a pipe if it returned
    int fd[2]; if (pipe(fd)) return -1; pid_t p = fork();
    if (p == 0) { uint64_t r = 0; close(fd[0]);
        if (u == "p_inv_v") r = p_inv_v(a); else if (u == "p_inv") p_inv(&r, a); else if (u == "p_div_v") r = p_div_v(a, b); else if (u == "p_div") p_div(&r, a, b);
        else if (u == "p_div_oa") { r = a; p_div_oa(&r, b); } else r = p_op_div(a, b);
        if (write(fd[1], &r, 8) != 8) _exit(9); _exit(0); }
    close(fd[1]); int st = 0; waitpid(p, &st, 0); int ok = WIFEXITED(st) && WEXITSTATUS(st) == 0 && read(fd[0], out, 8) == 8; close(fd[0]); return ok;
}
int vf_replay(const std::string &u, vf_inputs &in)
{
    uint64_t a = in["0"], b = in["1"], o = 0;
    if (u == "p_exp_v" || u == "p_exp") { if (u == "p_exp_v") o = p_exp_v(a, b); else p_exp(&o, a, b);
        printf("exp(%llu, %llu) -> %llu (canonical %llu), b^e mod p = %llu\n", (unsigned long long)a, (unsigned long long)b, (unsigned long long)o, (unsigned long long)(o % REF_P), (unsigned long long)ref_pow(a, b)); return o % REF_P == ref_pow(a, b) ? 0 : 1; }
    if (u == "p_inv_v" || u == "p_inv") { int r = returns_normally(u, a, 0, &o);
        if (a % REF_P == 0) { printf("inv of an operand congruent to zero (%llu): the call %s\n", (unsigned long long)a, r ? "RETURNED a value" : "did not return (process ended)"); return r ? 1 : 0; }
        printf("inv(%llu) -> %llu, a*inv(a) mod p = %llu\n", (unsigned long long)a, (unsigned long long)o, (unsigned long long)ref_mul(a, o)); return (r && ref_mul(a, o) == 1) ? 0 : 1; }
    if (u == "p_div_v" || u == "p_div" || u == "p_div_oa" || u == "p_op_div") { int r = returns_normally(u, a, b, &o);
        if (b % REF_P == 0) { printf("division by an operand congruent to zero: the call %s\n", r ? "RETURNED a value" : "did not return"); return r ? 1 : 0; }
        printf("div(%llu, %llu) -> %llu, result*b mod p = %llu, a mod p = %llu\n", (unsigned long long)a, (unsigned long long)b, (unsigned long long)o, (unsigned long long)ref_mul(o, b), (unsigned long long)(a % REF_P)); return (r && ref_mul(o, b) == a % REF_P) ? 0 : 1; }
    if (u == "inv_frame" || u == "inv_step") {   // representation independence and a*inv(a) == 1 on the verifier's operand and on its other representation
        uint64_t xs[4] = {a, a % REF_P, (a % REF_P) + ((a % REF_P) < 0xFFFFFFFFULL ? REF_P : 0), 0xFFFFFFFF00000002ULL}; int bad = 0;
        for (int k = 0; k < 4; k++) { uint64_t x = xs[k]; if (x % REF_P == 0) continue; int r = returns_normally("p_inv_v", x, 0, &o);
            printf("inv(%llu) -> %llu, x*inv(x) mod p = %llu\n", (unsigned long long)x, (unsigned long long)o, (unsigned long long)ref_mul(x, o)); if (!r || ref_mul(x, o) != 1) bad = 1; }
        return bad; }
    return 3;
}
