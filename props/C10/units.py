"""C10 - base-field inverse, division and power are exact and total on non-zero operands."""
import os, sys, re
sys.path.insert(0, os.path.dirname(os.path.dirname(os.path.dirname(os.path.abspath(__file__)))))
from vf.driver import Group, Unit, import_units
from vf import extract

PROPERTY = 'C10'
LEVEL = 'proof'
def filt(inv):
    def f_(repo_src, dst):
        f = extract.base_filter(repo_src, dst)
        f.drop_function('goldilocks_base_field_scalar.hpp', 'Goldilocks::mul', ptypes=['Element&', 'const Element&', 'const Element&'], expect=1, rule='E-callee')
        if inv:
            f.drop_function('goldilocks_base_field.cpp', 'Goldilocks::inv', expect=1, rule='E-callee')
        return f
    return f_
SRC = dict(cpp=['props/C10/wrappers.cpp', 'props/C10/forwarders.cpp'], c=['props/C10/contracts.c'])
GROUPS = {
    'exp': Group('exp', filt(True), defines=['VF_UF_ADDSUB', 'VF_LIGHT'], cxx_defines=['FWD_INV'], **SRC),
    'div': Group('div', filt(True), defines=['VF_UF_ADDSUB'], cxx_defines=['FWD_INV'], **SRC),
    'inv0': Group('inv0', filt(False), defines=['VF_UF_ADDSUB'], **SRC),
}
from vf import cify
def filt_inv(repo_src, dst):
    f = extract.Filter(repo_src, dst)
    f.check_macros()
    ren = [('Goldilocks::fromU64', 'Goldilocks_fromU64'), ('Goldilocks::toU64', 'Goldilocks_toU64'), ('Goldilocks::sub', 'Goldilocks_sub'), ('Goldilocks::mul', 'Goldilocks_mul'), ('Goldilocks::isZero', 'Goldilocks_isZero')]
    rules = [(r'Goldilocks::(fromU64|toU64|sub|mul|isZero)\(', r'Goldilocks_\1('), (r'\bElement\b', 'GElement'),
             (r'\(GElement &result, const GElement &in1\)', '(GElement *result_p, const GElement *in1_p) /* M2-ref: reference parameters become pointers; the names result / in1 stay usable through macros */'),
             (r'Goldilocks_fromU64\(result, t\);', 'result = Goldilocks_fromU64(t);'),
             (r'cerr << [^;]*;', '/* diagnostic dropped */;'), (r'\br / newr\b', 'vf_udiv(r, newr)')]
    whole = cify.cify(f, 'goldilocks_base_field.cpp', 'Goldilocks::inv', 'Goldilocks_inv', [], extra_rules=rules)
    body, cond = cify.loop_body(whole, 0)
    if cond.strip() != 'newr != 0' or 'vf_udiv(r, newr)' not in body:
        raise extract.ExtractError('M2-body: Goldilocks::inv: loop condition / division not as expected (%r)' % cond)
    frame = cify.cify(f, 'goldilocks_base_field.cpp', 'Goldilocks::inv', 'Goldilocks_inv', [], extra_rules=rules, cut_loops={0: 'vf_euclid_loop(&t, &r, &newt, &newr);'})
    step = 'static void inv_step(uint64_t *pt, uint64_t *pr, uint64_t *pnewt, uint64_t *pnewr)\n{ uint64_t t = *pt, r = *pr, newt = *pnewt, newr = *pnewr; GElement q, aux1, aux2;\n' + body + '\n*pt = t; *pr = r; *pnewt = newt; *pnewr = newr; }\n'
    f.note('M2-body', 'goldilocks_base_field.cpp', 1, 0, 0, 'Goldilocks::inv: while-body cut out as inv_step; whole loop outlined as vf_euclid_loop in the frame unit')
    f.files = {'gen_inv.c': step + '#define result (*result_p)\n#define in1 (*in1_p)\n' + frame + '#undef result\n#undef in1\n'}
    return f
GROUPS['invm2'] = Group('invm2', filt_inv, c=['props/C10/contracts_inv.c'], repo_cpp=[])
S = 'src/goldilocks_base_field_scalar.hpp'
UNITS = [
    Unit('p_exp_v', 'exp', 'p_exp_v', harness='hl_p_exp_v', light=True, flags=['--unwind', '66', '--unwinding-assertions'], loops='unwind 66 (at most 64 iterations: operand width), unwinding assertions on = termination',
         functions=['Goldilocks::exp(Element,uint64_t) (%s)' % S], timeout=300),
    Unit('p_exp', 'exp', 'p_exp', harness='hl_p_exp', light=True, flags=['--unwind', '66', '--unwinding-assertions'], loops='unwind 66 (at most 64 iterations: operand width), unwinding assertions on = termination',
         functions=['Goldilocks::exp(Element&,Element,uint64_t) (%s)' % S], timeout=300),
]
for n, d in (('p_div_v', 'div(const Element&,const Element&)'), ('p_div', 'div(Element&,const Element&,const Element&)'), ('p_div_oa', 'div [result==dividend]'), ('p_op_div', 'operator/')):
    UNITS.append(Unit(n, 'div', n, replace=['w_mul_v', 'w_inv_v'], functions=['Goldilocks::%s over the contracts of mul and inv (%s)' % (d, S)]))
for n, d in (('p_inv_v', 'inv(const Element&)'), ('p_inv', 'inv(Element&,const Element&)')):
    UNITS.append(Unit(n, 'inv0', n, never_returns=True, functions=['Goldilocks::%s on an operand congruent to zero: never returns, reaches exit (src/goldilocks_base_field.cpp)' % d]))
for _n, _d in (('inv_frame', 'initial state and result of the Euclid loop (loop outlined)'), ('inv_step', 'one iteration of the Euclid loop body, in field terms')):
    UNITS.append(Unit(_n, 'invm2', 'Goldilocks_inv', harness='hl_' + _n, light=True, functions=['Goldilocks::inv (src/goldilocks_base_field.cpp): %s [C-ified]' % _d]))
_g, _u = import_units('C01', lambda n: re.match(r'w_mul(_oa|_ob|_ab|_oab|_v)?$|lemma_reduce_congruence$', n))
GROUPS.update(_g); UNITS += _u
NATIVE_FLAGS = ['-mavx2']
NATIVE_SOURCES = ['props/C10/wrappers.cpp']
TRUSTED_BASE = [
    'lemma pow_binary (Lean): the right-to-left square-and-multiply recurrence equals b^e in every commutative monoid (e = 0 gives 1)',
    'caller-facing contract of Goldilocks::mul over the uninterpreted field product (enforced in C01 in witness form)',
    'PARTLY decided for Goldilocks::inv on non-zero operands: frame (loop starts from (0,p,1,canon a), result = final t) and one-step field contract (units inv_frame, inv_step); NOT PROVED: the contract of Goldilocks::inv for operands not congruent to zero (a * inv(a) == 1, termination of the extended-Euclid loop). It is ASSUMED where div and the cubic extension use it. Reason: each iteration needs a 64-bit division and a 64x64 multiplication as exact integer facts, which no back end available here decides; see DESIGN.md C10',
    'exit() is modelled as non-returning; CBMC C++ front end, cadical; extraction rules under coverage.extraction',
]
ASSUMPTIONS = ['p prime (only needed for the assumed inv contract)']
EXPLANATION = 'exp: full domain (base, exponent) in [0,2^64)^2 by complete unwinding; div: all dividends, divisor contract-checked; zero refusal for both representations of zero.'
MANIFEST_ENTRY = dict(
    category='proof',
    technique='CBMC contracts: exp by complete unwinding against the square-and-multiply recurrence (uninterpreted product) + Lean lemma; div over callee contracts; zero refusal as a never-returns contract',
    text='exp(b,e) for all 64-bit (b,e) incl. e=0 and its termination, div/operator/ for all operands over the mul and inv contracts, and the refusal of inv on both representations of zero are proved. The functional contract of inv on non-zero operands is NOT proved by this check (assumed; see level_note).',
    note='inv(a)*a == 1 and termination of the Euclid loop are assumed, not proved (64-bit division/multiplication facts are beyond the available solvers); p prime assumed.')

LEMMAS = ['pow_binary', 'powAux_eq', 'euclid_step']
def extra_checks(rn, tier, ginfos):
    from vf import lean
    import os, json
    r = lean.check_lemmas(LEMMAS)
    if r.get('lean_failed'):
        path = os.path.join(os.environ.get('VF_REPLAY_DIR', os.path.join(os.path.dirname(os.path.dirname(os.path.dirname(os.path.abspath(__file__)))), 'replay', 'out')), PROPERTY)
        os.makedirs(path, exist_ok=True)
        f = os.path.join(path, 'lean-lemmas.json')
        json.dump(dict(property=PROPERTY, obligation='Lean lemmas ' + ', '.join(LEMMAS), verifier_output=r.get('lean_output', '')), open(f, 'w'), indent=1)
        r['violations'] = ['VIOLATION property=%s replay=%s [Lean lemma no longer accepted] no-failing-input-found' % (PROPERTY, f)]
    return r
