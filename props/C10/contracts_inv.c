/* C10 - Goldilocks::inv on operands not congruent to zero: what IS decided (route M2, src/gen_inv.c).
 *  (frame)  with the extended-Euclid loop outlined into a monitor: the loop starts from (t, r, newt, newr) = (0, p, 1, canon(in1)) - so the
 *           result depends on the operand only through its residue - and the value returned is the loop's final t, as a canonical element;
 *  (step)   one iteration of the loop body (cut out mechanically) maps (t, r, newt, newr) to
 *               (canon newt, canon newr, t - q*newt, r - q*newr)  as FIELD elements,  q = r / newr (C division, uninterpreted here),
 *           with field sub / mul uninterpreted.  Lemma euclid_step (Lean): such a step preserves  t*a = r  and  newt*a = newr  in a field.
 * NOT decided: that the field value r - q*newr equals the INTEGER remainder r mod newr (exact 64-bit product / division facts), hence
 * termination and r_final = gcd = 1: the functional contract a*inv(a) = 1 stays ASSUMED (see units.py). */
#include "spec.h"
#define VF_SENTINEL __CPROVER_assert(0, "vf_sentinel: harness reaches the point after the call")
typedef unsigned long uint64_t; typedef unsigned long u_int64_t;
typedef struct { uint64_t fe; } GElement;
#define GOLDILOCKS_PRIME GP
u64 __CPROVER_uninterpreted_fsub(u64, u64); u64 __CPROVER_uninterpreted_fmul(u64, u64); u64 __CPROVER_uninterpreted_udiv(u64, u64);
#define FSUB(a, b) __CPROVER_uninterpreted_fsub(a, b)
#define FMUL(a, b) __CPROVER_uninterpreted_fmul(a, b)
static GElement Goldilocks_fromU64(uint64_t v) { GElement e; e.fe = v; return e; }             /* C15: identity on the representation */
static uint64_t Goldilocks_toU64(GElement e) { return canon(e.fe); }                              /* C15: canonical value */
static GElement Goldilocks_sub(GElement a, GElement b) { GElement e; u64 v; __CPROVER_assume(canon(v) == FSUB(canon(a.fe), canon(b.fe))); e.fe = v; return e; }   /* C01 contract, uninterpreted */
static GElement Goldilocks_mul(GElement a, GElement b) { GElement e; u64 v; __CPROVER_assume(canon(v) == FMUL(canon(a.fe), canon(b.fe))); e.fe = v; return e; }
static _Bool Goldilocks_isZero(GElement e) { return canon(e.fe) == 0; }
static uint64_t vf_udiv(uint64_t x, uint64_t y) { __CPROVER_assert(y != 0, "division by zero"); return __CPROVER_uninterpreted_udiv(x, y); }
void exit(int c) { __CPROVER_assume(0); }
/* monitor standing for the whole loop in the frame unit */
u64 g_in; _Bool g_bad; u64 g_T; unsigned g_loops;
static void vf_euclid_loop(uint64_t *t, uint64_t *r, uint64_t *newt, uint64_t *newr)
{ if (*t != 0 || *r != GP || *newt != 1 || *newr != canon(g_in)) g_bad = 1; u64 v; g_T = v; *t = v; *newr = 0; g_loops++; }
#include "gen_inv.c"
void hl_inv_frame(void)
{
  u64 a; __CPROVER_assume(canon(a) != 0); u64 vf_in0 = a; (void)vf_in0;
  GElement in1, result; in1.fe = a; g_in = a; g_bad = 0; g_loops = 0;
  Goldilocks_inv(&result, &in1);
  __CPROVER_assert(!g_bad && g_loops == 1, "inv.postcondition.1 (light): the Euclid loop starts from (0, p, 1, canon(operand)): the result depends only on the residue class");
  __CPROVER_assert(result.fe == g_T, "inv.postcondition.2 (light): the result is the loop's final t");
  VF_SENTINEL;
}
void hl_inv_step(void)
{
  u64 t, r, newt, newr; __CPROVER_assume(newr != 0);
  u64 t0 = t, r0 = r, nt0 = newt, nr0 = newr;
  inv_step(&t, &r, &newt, &newr);
  u64 Q = canon(__CPROVER_uninterpreted_udiv(r0, nr0));
  __CPROVER_assert(t == canon(nt0) && r == canon(nr0), "inv_step.postcondition.1 (light): (t, r) <- (newt, newr)");
  __CPROVER_assert(newt == FSUB(canon(t0), FMUL(Q, canon(nt0))) && newr == FSUB(canon(r0), FMUL(Q, canon(nr0))), "inv_step.postcondition.2 (light): (newt, newr) <- (t - q*newt, r - q*newr) in the field, q = r / newr");
  VF_SENTINEL;
}
