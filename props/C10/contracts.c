/* C10 contracts: base-field inverse, division and power are exact and total on non-zero operands.
 *  - exp: light unit (64-iteration loop, complete unwinding with unwinding assertions): the result is the 64-step
 *    right-to-left square-and-multiply recurrence over the uninterpreted field product; lemma pow_binary (Lean): the
 *    recurrence is b^e, incl. e == 0 -> 1.  Termination: the unwinding assertion (at most 64 iterations).
 *  - div: over the contracts of mul and inv: returns only for a divisor not congruent to zero, result = a * b^-1.
 *  - inv on an operand congruent to zero (both representations 0 and p): the call never returns; exit() is reached. */
#include "spec.h"
#define VF_SENTINEL __CPROVER_assert(0, "vf_sentinel: harness reaches the point after the call")
u64 __CPROVER_uninterpreted_inv(u64);
#define INVK(x) __CPROVER_uninterpreted_inv(x)
u64 vf_nondet_u64(void) { u64 x; return x; }
_Bool vf_nondet_bool(void) { _Bool x; return x; }
void vf_x86_mul64(u64 *rax, u64 *rdx, u64 src) { __CPROVER_assert(0, "scalar mul is replaced by its contract in these units"); }

#ifdef VF_LIGHT
/* exp: ghost call log instead of an uninterpreted product.  Every multiplication the code performs is recorded
 * by a ghost monitor (canonical operands, canonical value of the arbitrary result representation) that follows,
 * multiplication by multiplication, the schedule of the right-to-left square-and-multiply recurrence
 *     R_0 = 1, B_0 = b;  bit i of e set: R <- R*B;  more bits left: B <- B*B
 * and the result must be the last R.  Results are fresh symbolic values, so an operand of call k equals the result of
 * call j only if the code really feeds it forward: the code computes exactly the recurrence term (lemma pow_binary: = b^e). */
u64 g_e, g_R, g_B; unsigned g_i, g_phase; _Bool g_bad;
#define PAIR(x, y, p, q) (((x) == (p) && (y) == (q)) || ((x) == (q) && (y) == (p)))
u64 w_mul_v(u64 a, u64 b)
{
  u64 r_; u64 ca = canon(a), cb = canon(b), cr = canon(r_);
  if (g_i > 63) g_bad = 1;
  else if (g_phase == 0 && ((g_e >> g_i) & 1))
  { if (!PAIR(ca, cb, g_R, g_B)) g_bad = 1; g_R = cr; g_phase = 1; }                       /* R <- R*B for a set bit */
  else
  { if (g_i >= 63 || (g_e >> (g_i + 1)) == 0 || !PAIR(ca, cb, g_B, g_B)) g_bad = 1; g_B = cr; g_i++; g_phase = 0; }  /* B <- B*B while bits remain */
  return r_;
}
u64 p_exp_v(u64 base, u64 e); void p_exp(u64 *out, u64 base, u64 e);
static void exp_init(u64 b, u64 e) { g_e = e; g_R = 1; g_B = canon(b); g_i = 0; g_phase = 0; g_bad = 0; }
static void exp_check(u64 result)
{
  __CPROVER_assert(!g_bad, "p_exp.postcondition.1 (light): every multiplication is the next one of the square-and-multiply recurrence");
  __CPROVER_assert(g_i <= 63 && (g_phase == 0 ? (g_e >> g_i) : (g_i >= 63 ? 0 : (g_e >> (g_i + 1)))) == 0, "p_exp.postcondition.2 (light): no multiplication of the recurrence is missing");
  __CPROVER_assert(canon(result) == g_R, "p_exp.postcondition.3 (light): the result is the last R of the recurrence (1 for e == 0)");
}
void hl_p_exp_v(void) { u64 b, e; exp_init(b, e); u64 r = p_exp_v(b, e); exp_check(r); VF_SENTINEL; }
void hl_p_exp(void) { u64 b, e, o; exp_init(b, e); p_exp(&o, b, e); exp_check(o); VF_SENTINEL; }
#else
u64 w_mul_v(u64 a, u64 b) __CPROVER_assigns() __CPROVER_ensures(canon(__CPROVER_return_value) == MUL(a, b) && MULC(a, b));
u64 w_inv_v(u64 a) __CPROVER_assigns()
  __CPROVER_ensures(canon(a) != 0 && canon(__CPROVER_return_value) == INVK(canon(a)) && MUL(a, __CPROVER_return_value) == 1 && MUL(__CPROVER_return_value, a) == 1);
#define DIVPOST(r, a, b) (canon(b) != 0 && canon(r) == MULK(canon(a), INVK(canon(b))))
u64 p_div_v(u64 a, u64 b) __CPROVER_assigns() __CPROVER_ensures(DIVPOST(__CPROVER_return_value, a, b));
void h_p_div_v(void) { u64 a, b; p_div_v(a, b); VF_SENTINEL; }
void p_div(u64 *out, u64 a, u64 b) __CPROVER_requires(__CPROVER_is_fresh(out, 8)) __CPROVER_assigns(*out) __CPROVER_ensures(DIVPOST(*out, a, b));
void h_p_div(void) { u64 *o, a, b; p_div(o, a, b); VF_SENTINEL; }
void p_div_oa(u64 *oa, u64 b) __CPROVER_requires(__CPROVER_is_fresh(oa, 8)) __CPROVER_assigns(*oa) __CPROVER_ensures(DIVPOST(*oa, __CPROVER_old(*oa), b));
void h_p_div_oa(void) { u64 *o, b; p_div_oa(o, b); VF_SENTINEL; }
u64 p_op_div(u64 a, u64 b) __CPROVER_assigns() __CPROVER_ensures(DIVPOST(__CPROVER_return_value, a, b));
void h_p_op_div(void) { u64 a, b; p_op_div(a, b); VF_SENTINEL; }
/* refusal: for an operand congruent to zero the real inv never returns (ensures false) and reaches exit() */
void exit(int c) { __CPROVER_assert(0, "vf_reach_exit: the diagnostic exit is reached"); __CPROVER_assume(0); }
u64 p_inv_v(u64 a) __CPROVER_requires(canon(a) == 0) __CPROVER_assigns() __CPROVER_ensures(0);
void h_p_inv_v(void) { u64 a; p_inv_v(a); VF_SENTINEL; }
void p_inv(u64 *out, u64 a) __CPROVER_requires(canon(a) == 0 && __CPROVER_is_fresh(out, 8)) __CPROVER_assigns(*out) __CPROVER_ensures(0);
void h_p_inv(void) { u64 *o, a; p_inv(o, a); VF_SENTINEL; }
#endif
