// E-callee forwarders for C10 (value-based symbols, see props/C09/forwarders.cpp)
#include "goldilocks_base_field.hpp"
extern "C" { uint64_t w_mul_v(uint64_t a, uint64_t b); uint64_t w_inv_v(uint64_t a); }
void Goldilocks::mul(Element &result, const Element &in1, const Element &in2) { result.fe = w_mul_v(in1.fe, in2.fe); }
#ifdef FWD_INV
void Goldilocks::inv(Element &result, const Element &in1) { result.fe = w_inv_v(in1.fe); }
#endif
