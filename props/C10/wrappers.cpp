// C10 wrappers: base-field power, division, inverse.
#include "goldilocks_base_field.hpp"
#include "vf_wrap.h"
typedef Goldilocks::Element E;
extern "C" uint64_t p_exp_v(uint64_t base, uint64_t e) { VF_IN(0, base); VF_IN(1, e); E b = {base}; return Goldilocks::exp(b, e).fe; }
extern "C" void p_exp(uint64_t *out, uint64_t base, uint64_t e) { VF_IN(0, base); VF_IN(1, e); E b = {base}; Goldilocks::exp(*(E *)out, b, e); }
extern "C" uint64_t p_div_v(uint64_t a, uint64_t b) { VF_IN(0, a); VF_IN(1, b); E x = {a}, y = {b}; return Goldilocks::div(x, y).fe; }
extern "C" void p_div(uint64_t *out, uint64_t a, uint64_t b) { VF_IN(0, a); VF_IN(1, b); E x = {a}, y = {b}; Goldilocks::div(*(E *)out, x, y); }
extern "C" void p_div_oa(uint64_t *oa, uint64_t b) { VF_IN(0, *oa); VF_IN(1, b); E y = {b}; Goldilocks::div(*(E *)oa, *(const E *)oa, y); }
extern "C" uint64_t p_op_div(uint64_t a, uint64_t b) { VF_IN(0, a); VF_IN(1, b); E x = {a}, y = {b}; return (x / y).fe; }
extern "C" uint64_t p_inv_v(uint64_t a) { VF_IN(0, a); E x = {a}; return Goldilocks::inv(x).fe; }
extern "C" void p_inv(uint64_t *out, uint64_t a) { VF_IN(0, a); E x = {a}; Goldilocks::inv(*(E *)out, x); }
