"""C19 - transform objects are reusable (units shared with C03, see props/C03)."""
import os, sys, re
sys.path.insert(0, os.path.dirname(os.path.dirname(os.path.dirname(os.path.abspath(__file__)))))
from vf.driver import Group, Unit, import_units
PROPERTY = 'C19'
LEVEL = 'proof'
GROUPS, UNITS = {}, []
_g, _u = import_units('C03', lambda n: re.match(r'extendPol$|NTT_iters_schedule$', n))
GROUPS.update(_g); UNITS += _u
# syntactic frame: roots / powTwoInv / s are assigned in the constructor only
def extra_checks(rn, tier, ginfos):
    from vf.driver import REPO
    src = open(os.path.join(REPO, 'src', 'ntt_goldilocks.cpp')).read()
    bad = [m.group(0) for m in re.finditer(r'\\b(roots|powTwoInv)\\s*(\\[[^\\]]*\\])?\\s*=[^=]', src)]
    if bad:
        return dict(machinery=['C19 frame: ntt_goldilocks.cpp assigns roots/powTwoInv outside the constructor: %s' % bad[:3]])
    return dict(obligations=1, discharged=1, samples=[dict(obligation='frame(roots, powTwoInv)', description='no assignment to roots / powTwoInv in ntt_goldilocks.cpp (constructor in the header only)')])

TRUSTED_BASE = ['units of props/C03 (M2 C-ification, outlined batch data path, ghost monitors)']
ASSUMPTIONS = ['object domain s <= 32, transform size 2^k with k <= min(s, 30)', 'allocation failure (malloc returning NULL) is not modelled']
EXPLANATION = 'Representation invariant Inv(obj) = (r == NULL or the tables belong to r_size): extendPol re-establishes it from ANY state satisfying it and uses the table for the current N (so by induction over calls a later call cannot see an earlier N); NTT_iters leaves s / nThreads / extension untouched and its schedule depends on the call arguments only.'
MANIFEST_ENTRY = dict(category='proof', technique='representation invariant checked on the C-ified methods from an arbitrary invariant-satisfying state (induction over calls)', text='Representation invariant Inv(obj) = (r == NULL or the tables belong to r_size): extendPol re-establishes it from ANY state satisfying it and uses the table for the current N (so by induction over calls a later call cannot see an earlier N); NTT_iters leaves s / nThreads / extension untouched and its schedule depends on the call arguments only.', note='roots / powTwoInv are written by the constructor only (syntactic: no other assignment in ntt_goldilocks.{hpp,cpp}, checked by the extraction rule); functional content of the results as for C03-C05.')
