"""C18 - no out-of-bounds, uninitialised, mismatched-free or undefined behaviour (by-product obligations of the other units)."""
import os, sys, re
sys.path.insert(0, os.path.dirname(os.path.dirname(os.path.dirname(os.path.abspath(__file__)))))
from vf.driver import Group, Unit, import_units
PROPERTY = 'C18'
LEVEL = 'proof'
GROUPS, UNITS = {}, []
# a cross-section of the units whose operands are allocated at exactly the documented extent and that run with bounds / pointer /
# shift / signed-overflow / division checks (and the allocator model where the code allocates)
for prop, pred in (('C03', r'NTT_wrapper@(1x1|2x3|4x4)$|NTT_noop@|extendPol$|BR$|log2$'), ('C07', r'linear_hash(_seq)?$'), ('C08', r'merkletree_(batch_)?(seq|avx|avx512)$|getTreeNumElements$'),
                   ('C16', r'g16_\d+_(copy|add|sub|mul)\w*_(batch|avx|avx512)$'),
                   ('C17', r'parcpy$|parSetZero$|g17_00[0-5]_copy_batch'), ('C13', r'k_spmv_avx_4x12@lane0$|k_dot_avx$'), ('C02', r'k_(load|store)_avx(_a)?$'), ('C11', r'k_(load|store)_avx512(_a)?$')):
    _g, _u = import_units(prop, lambda n, p=pred: re.match(p, n))
    GROUPS.update(_g); UNITS += _u
TRUSTED_BASE = ['CBMC memory model and allocator model (malloc/free pairing, --memory-leak-check on the NTT wrapper units)', 'units and abstractions of the imported properties']
ASSUMPTIONS = ['NOT covered: alignment requirements of aligned loads/stores (alignas dropped), reads of uninitialised memory that do not influence a checked value, the constructor (GMP calls, throw), malloc failure, sizes with log2 >= 31',
               'new[]/delete[] pairing of the coset tables (F9) was found by review + ASan and fixed; CBMC C++ new/delete are not exercised (M2 route replaces them by monitors)']
EXPLANATION = 'Every unit of every property runs with the safety checks on and exact-extent operands; this check re-runs a cross-section of them; the full list is the union of the evidence files.'
MANIFEST_ENTRY = dict(category='proof', technique='safety obligations (bounds, pointer, shift, signed overflow, division, allocator) of the contract units with operands allocated at exactly the documented extent',
    text='Memory-safety and UB obligations discharged for the functions under contract: smallest shapes included (one row, one element, zero columns, size 0/1), input buffers of exactly the declared length (linear_hash, Merkle builders, strided helpers), allocation/release pairing of the NTT scratch buffers.',
    note='Alignment faults, uninitialised reads without observable effect, constructor/GMP, malloc failure are not covered; object lifetime after arbitrary call sequences is covered only through the extendPol invariant unit.')
