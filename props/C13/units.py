"""C13 - AVX2 dot / sparse / dense 12-wide matrix kernels equal the product mod p."""
import os, sys
sys.path.insert(0, os.path.dirname(os.path.dirname(os.path.dirname(os.path.abspath(__file__)))))
from vf.driver import Group, Unit
from vf import extract

PROPERTY = 'C13'
LEVEL = 'proof'
AVX = 'goldilocks_base_field_avx.hpp'
L1 = ['mult_avx', 'add_avx', 'mult_avx_72', 'reduce_avx_96_64']
def filt(level):
    def f_(repo_src, dst):
        f = extract.base_filter(repo_src, dst)
        for n in L1:
            f.drop_function(AVX, 'Goldilocks::' + n, ptypes=None if n != 'add_avx' else ['__m256i&', 'const __m256i&', 'const __m256i&'], expect=1, rule='E-callee')
        if level >= 2:
            for n in ('spmv_avx_4x12', 'spmv_avx_4x12_a', 'spmv_avx_4x12_8'):
                f.drop_function(AVX, 'Goldilocks::' + n, expect=1, rule='E-callee')
        if level >= 3:
            for n in ('mmult_avx_4x12', 'mmult_avx_4x12_a', 'mmult_avx_4x12_8'):
                f.drop_function(AVX, 'Goldilocks::' + n, expect=1, rule='E-callee')
        return f
    return f_
SRC = dict(cpp=['props/C13/wrappers.cpp', 'props/C13/forwarders.cpp'], c=['props/C13/contracts.c'])
GROUPS = {
    'l1': Group('l1', filt(1), cxx_defines=['FWD_L1'], **SRC),
    'l2': Group('l2', filt(2), defines=['VF_MODULAR_DOT'], cxx_defines=['FWD_L1', 'FWD_SPMV'], **SRC),
    'l3': Group('l3', filt(3), defines=['VF_MODULAR_DOT', 'VF_MODULAR_ROW'], cxx_defines=['FWD_L1', 'FWD_SPMV', 'FWD_MM4'], **SRC),
}
for lane in range(4):
    GROUPS['l1_lane%d' % lane] = Group('l1_lane%d' % lane, filt(1), defines=['VF_LANE=%d' % lane], cxx_defines=['FWD_L1'], **SRC)
A = 'src/' + AVX
K1 = ['k_mult_avx', 'k_add_avx', 'k_mult_avx_72', 'k_reduce_avx_96_64']
UNITS = []
for n in ('spmv_avx_4x12', 'spmv_avx_4x12_a', 'spmv_avx_4x12_8'):
    for lane in range(4):
        UNITS.append(Unit('k_%s@lane%d' % (n, lane), 'l1_lane%d' % lane, 'k_' + n, replace=K1, functions=['Goldilocks::%s [lane %d] over the L1 contracts (%s)' % (n, lane, A)], timeout=400))
for n, sp in (('mmult_avx_4x12', 'spmv_avx_4x12'), ('mmult_avx_4x12_a', 'spmv_avx_4x12_a'), ('mmult_avx_4x12_8', 'spmv_avx_4x12_8')):
    UNITS.append(Unit('k_' + n, 'l2', 'k_' + n, replace=K1 + ['k_' + sp], functions=['Goldilocks::%s over the contracts of %s and add_avx (%s)' % (n, sp, A)], timeout=600))
for n, sp in (('dot_avx', 'spmv_avx_4x12'), ('dot_avx_a', 'spmv_avx_4x12_a')):
    UNITS.append(Unit('k_' + n, 'l2', 'k_' + n, replace=['k_' + sp], functions=['Goldilocks::%s over the contract of %s (%s)' % (n, sp, A)], timeout=600))
for n, mm in (('mmult_avx', 'mmult_avx_4x12'), ('mmult_avx_a', 'mmult_avx_4x12_a'), ('mmult_avx_8', 'mmult_avx_4x12_8')):
    UNITS.append(Unit('k_' + n, 'l3', 'k_' + n, replace=['k_' + mm], functions=['Goldilocks::%s over the contract of %s (%s)' % (n, mm, A)], timeout=600))
# the L1 kernels this chain stands on (their contracts are enforced against the real bodies by the C02 units, run here too)
import re
from vf.driver import import_units
_g, _u = import_units('C02', lambda n: re.match(r'k_(mult_avx|add_avx|mult_avx_72|reduce_avx_96_64|mult_avx_128|reduce_avx_128_64|load_avx|load_avx_a|store_avx|store_avx_a)(@.*)?$', n))
GROUPS.update(_g); UNITS += _u
NATIVE_FLAGS = ['-mavx2']
TRUSTED_BASE = [
    'L1 contracts of mult_avx / mult_avx_72 in caller-facing form (canon(c) == MUL(a,b); 72-bit product halves) - enforced in C02 in linear witness form; the bridge is the mathematical step listed under C02',
    'field multiplication is an uninterpreted commutative function of the canonical operands: every postcondition is an exact expression DAG over it; equality of the DAG with the sum of products mod p is lemma sumtree (Lean)',
    'L0 intrinsic table (loads, permute2f128, unpack); CBMC/cadical; extraction rules under coverage.extraction',
]
ASSUMPTIONS = ['8-bit variants: every coefficient < 2^8 (documented)']
EXPLANATION = 'spmv/dot over the L1 contracts; mmult_4x12 over the spmv contract (transpose proved as "lane i is the sum over row i"); mmult over the mmult_4x12 contract. All states and matrices symbolic.'
MANIFEST_ENTRY = dict(
    category='proof',
    technique='layered CBMC code contracts (callers checked against callee contracts via replace-call-with-contract) with uninterpreted field multiplication',
    text='11 units: the 3-block diagonal product, its horizontal sum, the 4x12 block product and the 12x12 matrix-vector product, aligned/unaligned/8-bit variants, each proved against an exact expression DAG for all states and coefficient arrays.',
    note='Trusted: bridge from the L1 witness-form contracts to the uninterpreted-product form, intrinsic table, CBMC/cadical; the DAG = sum-of-products identity is a Lean lemma.')
NATIVE_SOURCES = ['props/C13/wrappers.cpp']

LEMMAS = ['sumtree3', 'sumtree4', 'dot8_term']
def extra_checks(rn, tier, ginfos):
    from vf import lean
    import os, json
    r = lean.check_lemmas(LEMMAS)
    if r.get('lean_failed'):
        path = os.path.join(os.environ.get('VF_REPLAY_DIR', os.path.join(os.path.dirname(os.path.dirname(os.path.dirname(os.path.abspath(__file__)))), 'replay', 'out')), PROPERTY)
        os.makedirs(path, exist_ok=True)
        f = os.path.join(path, 'lean-lemmas.json')
        json.dump(dict(property=PROPERTY, obligation='Lean lemmas ' + ', '.join(LEMMAS), verifier_output=r.get('lean_output', '')), open(f, 'w'), indent=1)
        r['violations'] = ['VIOLATION property=%s replay=%s [Lean lemma no longer accepted] no-failing-input-found' % (PROPERTY, f)]
    return r
