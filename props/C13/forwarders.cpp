// E-callee forwarders for C13 (scheme: props/C02/forwarders.cpp).  Each is compiled only in the units that replace the callee.
#include "goldilocks_base_field.hpp"
typedef Goldilocks::Element E;
#define CP4(d, s) do { (d)[0] = (s)[0]; (d)[1] = (s)[1]; (d)[2] = (s)[2]; (d)[3] = (s)[3]; } while (0)
extern "C" {
void k_mult_avx(uint64_t *c, const uint64_t *a, const uint64_t *b);
void k_add_avx(uint64_t *c, const uint64_t *a, const uint64_t *b);
void k_mult_avx_72(uint64_t *ch, uint64_t *cl, const uint64_t *a, const uint64_t *b);
void k_reduce_avx_96_64(uint64_t *c, const uint64_t *ch, const uint64_t *cl);
void k_spmv_avx_4x12(uint64_t *c, const uint64_t *a0, const uint64_t *a1, const uint64_t *a2, const uint64_t *b);
void k_spmv_avx_4x12_a(uint64_t *c, const uint64_t *a0, const uint64_t *a1, const uint64_t *a2, const uint64_t *b);
void k_spmv_avx_4x12_8(uint64_t *c, const uint64_t *a0, const uint64_t *a1, const uint64_t *a2, const uint64_t *b);
void k_mmult_avx_4x12(uint64_t *c, const uint64_t *a0, const uint64_t *a1, const uint64_t *a2, const uint64_t *b);
void k_mmult_avx_4x12_a(uint64_t *c, const uint64_t *a0, const uint64_t *a1, const uint64_t *a2, const uint64_t *b);
void k_mmult_avx_4x12_8(uint64_t *c, const uint64_t *a0, const uint64_t *a1, const uint64_t *a2, const uint64_t *b);
}
#ifdef FWD_L1
void Goldilocks::mult_avx(__m256i &c, const __m256i &a, const __m256i &b)
{ uint64_t tc[4], ta[4], tb[4]; CP4(ta, a.v); CP4(tb, b.v); k_mult_avx(tc, ta, tb); CP4(c.v, tc); }
void Goldilocks::add_avx(__m256i &c, const __m256i &a, const __m256i &b)
{ uint64_t tc[4], ta[4], tb[4]; CP4(ta, a.v); CP4(tb, b.v); k_add_avx(tc, ta, tb); CP4(c.v, tc); }
void Goldilocks::mult_avx_72(__m256i &c_h, __m256i &c_l, const __m256i &a, const __m256i &b)
{ uint64_t th[4], tl[4], ta[4], tb[4]; CP4(ta, a.v); CP4(tb, b.v); k_mult_avx_72(th, tl, ta, tb); CP4(c_h.v, th); CP4(c_l.v, tl); }
void Goldilocks::reduce_avx_96_64(__m256i &c, const __m256i &c_h, const __m256i &c_l)
{ uint64_t tc[4], th[4], tl[4]; CP4(th, c_h.v); CP4(tl, c_l.v); k_reduce_avx_96_64(tc, th, tl); CP4(c.v, tc); }
#endif
#define FWD_SP(name) void Goldilocks::name(__m256i &c, const __m256i &a0, const __m256i &a1, const __m256i &a2, const E *b) \
{ uint64_t tc[4], t0[4], t1[4], t2[4]; CP4(t0, a0.v); CP4(t1, a1.v); CP4(t2, a2.v); k_##name(tc, t0, t1, t2, (const uint64_t *)b); CP4(c.v, tc); }
#ifdef FWD_SPMV
FWD_SP(spmv_avx_4x12)
FWD_SP(spmv_avx_4x12_a)
FWD_SP(spmv_avx_4x12_8)
#endif
#ifdef FWD_MM4
FWD_SP(mmult_avx_4x12)
FWD_SP(mmult_avx_4x12_a)
FWD_SP(mmult_avx_4x12_8)
#endif
