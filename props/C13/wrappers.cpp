// C13 wrappers: AVX2 dot / sparse / dense 12-wide matrix kernels.  Registers as uint64_t[4], coefficient arrays as uint64_t[12|48|144].
#include "goldilocks_base_field.hpp"
#include "vf_wrap.h"
typedef Goldilocks::Element E;
#define LD(p) _mm256_loadu_si256((const __m256i *)(p))
#define ST(p, v) _mm256_storeu_si256((__m256i *)(p), (v))
#define IN_STATE VF_IN4(a0_, a0); VF_IN4(a1_, a1); VF_IN4(a2_, a2)
#define IN_B12 VF_IN4(b0_, b); VF_IN4(b1_, b + 4); VF_IN4(b2_, b + 8)

#define K_SPMV(name) extern "C" void k_##name(uint64_t *c, const uint64_t *a0, const uint64_t *a1, const uint64_t *a2, const uint64_t *b) \
  { IN_STATE; IN_B12; __m256i v0 = LD(a0), v1 = LD(a1), v2 = LD(a2), vc; Goldilocks::name(vc, v0, v1, v2, (const E *)b); ST(c, vc); }
K_SPMV(spmv_avx_4x12)
K_SPMV(spmv_avx_4x12_a)
K_SPMV(spmv_avx_4x12_8)
K_SPMV(mmult_avx_4x12)     // b = M[48]
K_SPMV(mmult_avx_4x12_a)
K_SPMV(mmult_avx_4x12_8)
#define K_DOT(name) extern "C" uint64_t k_##name(const uint64_t *a0, const uint64_t *a1, const uint64_t *a2, const uint64_t *b) \
  { IN_STATE; IN_B12; __m256i v0 = LD(a0), v1 = LD(a1), v2 = LD(a2); return Goldilocks::name(v0, v1, v2, (const E *)b).fe; }
K_DOT(dot_avx)
K_DOT(dot_avx_a)
#define K_MM(name) extern "C" void k_##name(uint64_t *a0, uint64_t *a1, uint64_t *a2, const uint64_t *M) \
  { IN_STATE; __m256i v0 = LD(a0), v1 = LD(a1), v2 = LD(a2); Goldilocks::name(v0, v1, v2, (const E *)M); ST(a0, v0); ST(a1, v1); ST(a2, v2); }
K_MM(mmult_avx)
K_MM(mmult_avx_a)
K_MM(mmult_avx_8)
