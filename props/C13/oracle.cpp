// C13/C14 native oracle: real AVX2 (and, with -D__AVX512__, AVX-512) matrix kernels vs __int128 reference sums of products.
#include <cstdint>
#include <cstdio>
#include <cstring>
#include <map>
#include <string>
#include "../../replay/ref.h"
typedef std::map<std::string, uint64_t> vf_inputs;
#ifdef __AVX512__
#define NL 8
#define SFX "avx512"
#else
#define NL 4
#define SFX "avx"
#endif
extern "C" {
#ifdef __AVX512__
#define DECL(n) void k_##n(uint64_t *, const uint64_t *, const uint64_t *, const uint64_t *, const uint64_t *);
DECL(spmv_avx512_4x12) DECL(spmv_avx512_4x12_8) DECL(mmult_avx512_4x12) DECL(mmult_avx512_4x12_8) DECL(dot_avx512)
void k_mmult_avx512(uint64_t *, uint64_t *, uint64_t *, const uint64_t *); void k_mmult_avx512_8(uint64_t *, uint64_t *, uint64_t *, const uint64_t *);
#else
#define DECL(n) void k_##n(uint64_t *, const uint64_t *, const uint64_t *, const uint64_t *, const uint64_t *);
DECL(spmv_avx_4x12) DECL(spmv_avx_4x12_a) DECL(spmv_avx_4x12_8) DECL(mmult_avx_4x12) DECL(mmult_avx_4x12_a) DECL(mmult_avx_4x12_8)
uint64_t k_dot_avx(const uint64_t *, const uint64_t *, const uint64_t *, const uint64_t *); uint64_t k_dot_avx_a(const uint64_t *, const uint64_t *, const uint64_t *, const uint64_t *);
void k_mmult_avx(uint64_t *, uint64_t *, uint64_t *, const uint64_t *); void k_mmult_avx_a(uint64_t *, uint64_t *, uint64_t *, const uint64_t *); void k_mmult_avx_8(uint64_t *, uint64_t *, uint64_t *, const uint64_t *);
#endif
}
static uint64_t dot3(const uint64_t *a0, const uint64_t *a1, const uint64_t *a2, int lane, const uint64_t *b, int col)
{ return ref_add(ref_add(ref_mul(a0[lane], b[col]), ref_mul(a1[lane], b[4 + col])), ref_mul(a2[lane], b[8 + col])); }
static uint64_t row(const uint64_t *a0, const uint64_t *a1, const uint64_t *a2, int s, const uint64_t *M)
{ uint64_t r = 0; for (int j = 0; j < 4; j++) r = ref_add(r, dot3(a0, a1, a2, s + j, M, j)); return r; }
static int bad = 0;
static void chk(const char *u, int i, uint64_t got, uint64_t want) { if (got % REF_P != want) { bad = 1; printf("%s output %d: real code returned %llu (canonical %llu), exact sum of products mod p is %llu\n", u, i, (unsigned long long)got, (unsigned long long)(got % REF_P), (unsigned long long)want); } }
int vf_replay(const std::string &u, vf_inputs &in)
{
    alignas(64) uint64_t a0[8] = {0}, a1[8] = {0}, a2[8] = {0}, c[8] = {0}; alignas(64) uint64_t M[144];
    // matrix entries are not all in the trace (only the first 12 are snapshotted): fill the rest with a fixed pattern
    for (int k = 0; k < 144; k++) M[k] = (u.find("_8") != std::string::npos) ? (uint64_t)((k * 37 + 11) & 255) : 0x9E3779B97F4A7C15ULL * (k + 1);
    for (int i = 0; i < NL; i++) { a0[i] = in["a0_" + std::to_string(i)]; a1[i] = in["a1_" + std::to_string(i)]; a2[i] = in["a2_" + std::to_string(i)]; }
    for (int j = 0; j < 3; j++) for (int i = 0; i < 4; i++) { auto it = in.find("b" + std::to_string(j) + "_" + std::to_string(i)); if (it != in.end()) M[4 * j + i] = it->second; }
    const char *s = u.c_str();
    std::string spmv = std::string("k_spmv_") + SFX + "_4x12", mm4 = std::string("k_mmult_") + SFX + "_4x12", mm = std::string("k_mmult_") + SFX, dot = std::string("k_dot_") + SFX;
    if (u == spmv || u == spmv + "_a" || u == spmv + "_8") {
#ifdef __AVX512__
        if (u == spmv) k_spmv_avx512_4x12(c, a0, a1, a2, M); else k_spmv_avx512_4x12_8(c, a0, a1, a2, M);
#else
        if (u == spmv) k_spmv_avx_4x12(c, a0, a1, a2, M); else if (u == spmv + "_a") k_spmv_avx_4x12_a(c, a0, a1, a2, M); else k_spmv_avx_4x12_8(c, a0, a1, a2, M);
#endif
        for (int i = 0; i < NL; i++) chk(s, i, c[i], dot3(a0, a1, a2, i, M, i & 3));
    } else if (u == mm4 || u == mm4 + "_a" || u == mm4 + "_8") {
#ifdef __AVX512__
        if (u == mm4) k_mmult_avx512_4x12(c, a0, a1, a2, M); else k_mmult_avx512_4x12_8(c, a0, a1, a2, M);
#else
        if (u == mm4) k_mmult_avx_4x12(c, a0, a1, a2, M); else if (u == mm4 + "_a") k_mmult_avx_4x12_a(c, a0, a1, a2, M); else k_mmult_avx_4x12_8(c, a0, a1, a2, M);
#endif
        for (int i = 0; i < NL; i++) chk(s, i, c[i], row(a0, a1, a2, (i >> 2) << 2, M + 12 * (i & 3)));
    } else if (u == mm || u == mm + "_a" || u == mm + "_8") {
        uint64_t o0[8], o1[8], o2[8]; memcpy(o0, a0, 64); memcpy(o1, a1, 64); memcpy(o2, a2, 64);
#ifdef __AVX512__
        if (u == mm) k_mmult_avx512(a0, a1, a2, M); else k_mmult_avx512_8(a0, a1, a2, M);
#else
        if (u == mm) k_mmult_avx(a0, a1, a2, M); else if (u == mm + "_a") k_mmult_avx_a(a0, a1, a2, M); else k_mmult_avx_8(a0, a1, a2, M);
#endif
        for (int i = 0; i < NL; i++) { int st = (i >> 2) << 2, r = i & 3;
            chk(s, i, a0[i], row(o0, o1, o2, st, M + 12 * r)); chk(s, 8 + i, a1[i], row(o0, o1, o2, st, M + 12 * (4 + r))); chk(s, 16 + i, a2[i], row(o0, o1, o2, st, M + 12 * (8 + r))); }
    } else if (u == dot || u == dot + "_a") {
#ifdef __AVX512__
        uint64_t c2[2]; k_dot_avx512(c2, a0, a1, a2, M); chk(s, 0, c2[0], row(a0, a1, a2, 0, M)); chk(s, 1, c2[1], row(a0, a1, a2, 4, M));
#else
        uint64_t r = (u == dot) ? k_dot_avx(a0, a1, a2, M) : k_dot_avx_a(a0, a1, a2, M); chk(s, 0, r, row(a0, a1, a2, 0, M));
#endif
    } else return 3;
    if (!bad) printf("%s: all outputs equal the exact sums of products mod p natively\n", s);
    return bad;
}
