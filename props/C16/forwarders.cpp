// E-callee forwarders for C16: the scalar add / sub / mul and the lane kernels add_avx / sub_avx / mult_avx (and the AVX-512
// twins) are replaced by their caller-facing contracts.  The lane kernels' contract (C02 / C11: lane k of the result is the
// field operation on lane k of the operands, for every representation) is stated through the value-based scalar symbols
// w_add_v / w_sub_v / w_mul_v, one application per lane - no pointers, so no extra addressed objects in the caller units.
#include "goldilocks_base_field.hpp"
typedef Goldilocks::Element E;
extern "C" {
uint64_t w_mul_v(uint64_t a, uint64_t b);
uint64_t w_add_v(uint64_t a, uint64_t b);
uint64_t w_sub_v(uint64_t a, uint64_t b);
}
void Goldilocks::mul(Element &result, const Element &in1, const Element &in2) { result.fe = w_mul_v(in1.fe, in2.fe); }
void Goldilocks::add(Element &result, const Element &in1, const Element &in2) { result.fe = w_add_v(in1.fe, in2.fe); }
void Goldilocks::sub(Element &result, const Element &in1, const Element &in2) { result.fe = w_sub_v(in1.fe, in2.fe); }
// vf_lane (set by the harness): >= 8 = every lane under contract; k < 8 = only lane k is constrained, the other lanes of every kernel
// result are arbitrary (a weaker assumed contract, used by the one-lane-per-unit proofs of the ext*ext routines: the field
// operations of one lane are what C09's scalar unit sees, instead of 4x / 8x as many uninterpreted applications in one query)
extern "C" { extern uint64_t vf_lane; uint64_t vf_nondet_u64(void); }
#define LANES(T, N, f) { T t; for (int i = 0; i < N; i++) { if (vf_lane >= 8 || (uint64_t)i == vf_lane) t.v[i] = f(a.v[i], b.v[i]); else t.v[i] = vf_nondet_u64(); } c = t; }
void Goldilocks::add_avx(__m256i &c, const __m256i &a, const __m256i &b) LANES(__m256i, 4, w_add_v)
void Goldilocks::sub_avx(__m256i &c, const __m256i &a, const __m256i &b) LANES(__m256i, 4, w_sub_v)
void Goldilocks::mult_avx(__m256i &c, const __m256i &a, const __m256i &b) LANES(__m256i, 4, w_mul_v)
#ifdef __AVX512__
void Goldilocks::add_avx512(__m512i &c, const __m512i &a, const __m512i &b) LANES(__m512i, 8, w_add_v)
void Goldilocks::sub_avx512(__m512i &c, const __m512i &a, const __m512i &b) LANES(__m512i, 8, w_sub_v)
void Goldilocks::mult_avx512(__m512i &c, const __m512i &a, const __m512i &b) LANES(__m512i, 8, w_mul_v)
#endif
