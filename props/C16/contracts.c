/* C16 contracts: every batched / AVX2 / AVX-512 cubic-extension routine writes, for element k, the coefficients the scalar
 * extension operation gives on the k-th operands, and touches nothing but the designated positions.
 * Layer over the base-field contracts: scalar add / sub / mul and the lane kernels add_avx / sub_avx / mult_avx (512) are
 * replaced by their caller-facing contracts (C01, C02, C11) in uninterpreted form, so every obligation is a congruence fact
 * over the expression DAG the code builds.  The per-overload contracts are generated (contracts_gen.inc, props/C16/gen.py). */
#include "spec.h"
#define VF_SENTINEL __CPROVER_assert(0, "vf_sentinel: harness reaches the point after the call")
/* neutral element, instantiated at the applications the code makes (true of the defined addmod / submod): some routines add a
 * zero-padded vector instead of copying a coefficient */
#define ADD0(x, y) (((y) != 0 || addmod(x, y) == (x)) && ((x) != 0 || addmod(x, y) == (y)))
#define SUB0(x, y) ((y) != 0 || submod(x, y) == (x))
/* caller-facing contracts of the replaced callees, as stubs "arbitrary result satisfying the postcondition" (no precondition, no
 * side effect: value parameters).  Stubs rather than --replace-call-with-contract: dfcc allocates a write set per replaced call
 * and the 76 / 152 calls of an ext*ext routine exceed CBMC's default 256 addressed objects. */
u64 w_mul_v(u64 a, u64 b) { u64 r_; __CPROVER_assume(canon(r_) == MUL(a, b) && MULC(a, b)); return r_; }
u64 w_add_v(u64 a, u64 b) { u64 r_; __CPROVER_assume(canon(r_) == addmod(canon(a), canon(b)) && ADDC(canon(a), canon(b)) && ADD0(canon(a), canon(b))); return r_; }
u64 w_sub_v(u64 a, u64 b) { u64 r_; __CPROVER_assume(canon(r_) == submod(canon(a), canon(b)) && SUB0(canon(a), canon(b))); return r_; }
#ifdef VF_LIGHT
void *malloc(unsigned long);
#endif
u64 vf_lane;   /* see forwarders.cpp */
#define VF_LANE_OFF(k) (vf_lane < 8 && vf_lane != (k))
u64 vf_nondet_u64(void) { u64 x; return x; }
_Bool vf_nondet_bool(void) { _Bool x; return x; }
void vf_x86_mul64(u64 *rax, u64 *rdx, u64 src) { __CPROVER_assert(0, "scalar mul is replaced by its contract in these units"); }

/* ext * ext over canonical coefficients: the Karatsuba DAG of Goldilocks3::mul (lemma cubic_mul: equals the product in
 * F_p[x]/(x^3-x-1)); F3M1R is the middle coefficient with the subtractions grouped (lemma cubic_mul_r1: same value). */
#define K_A(a0, a1, a2, b0, b1, b2) MULK(addmod(a0, a1), addmod(b0, b1))
#define K_B(a0, a1, a2, b0, b1, b2) MULK(addmod(a0, a2), addmod(b0, b2))
#define K_C(a0, a1, a2, b0, b1, b2) MULK(addmod(a1, a2), addmod(b1, b2))
#define K_D(a0, a1, a2, b0, b1, b2) MULK(a0, b0)
#define K_E(a0, a1, a2, b0, b1, b2) MULK(a1, b1)
#define K_F(a0, a1, a2, b0, b1, b2) MULK(a2, b2)
#define K_G(a0, a1, a2, b0, b1, b2) submod(K_D(a0, a1, a2, b0, b1, b2), K_E(a0, a1, a2, b0, b1, b2))
#define F3M0(a0, a1, a2, b0, b1, b2) submod(addmod(K_C(a0, a1, a2, b0, b1, b2), K_G(a0, a1, a2, b0, b1, b2)), K_F(a0, a1, a2, b0, b1, b2))
#define F3M1(a0, a1, a2, b0, b1, b2) submod(submod(submod(addmod(K_A(a0, a1, a2, b0, b1, b2), K_C(a0, a1, a2, b0, b1, b2)), K_E(a0, a1, a2, b0, b1, b2)), K_E(a0, a1, a2, b0, b1, b2)), K_D(a0, a1, a2, b0, b1, b2))
#define F3M1R(a0, a1, a2, b0, b1, b2) submod(addmod(K_A(a0, a1, a2, b0, b1, b2), K_C(a0, a1, a2, b0, b1, b2)), addmod(addmod(K_E(a0, a1, a2, b0, b1, b2), K_E(a0, a1, a2, b0, b1, b2)), K_D(a0, a1, a2, b0, b1, b2)))
#define F3M2(a0, a1, a2, b0, b1, b2) submod(K_B(a0, a1, a2, b0, b1, b2), K_G(a0, a1, a2, b0, b1, b2))
#define VMAX(x, y) ((x) > (y) ? (x) : (y))
#define DISJ3(x, y) ((x) + 3 <= (y) || (y) + 3 <= (x))
#include "shapes.inc"
#include "contracts_gen.inc"
