"""C16 - every batched / AVX2 / AVX-512 cubic-extension variant equals the scalar operation."""
import os, sys, re, json
HERE = os.path.dirname(os.path.abspath(__file__))
sys.path.insert(0, os.path.dirname(os.path.dirname(HERE)))
sys.path.insert(0, HERE)
from vf.driver import Group, Unit, REPO
from vf import extract
import importlib.util as _u
_s = _u.spec_from_file_location('gen16', os.path.join(HERE, 'gen.py')); _gen = _u.module_from_spec(_s); _s.loader.exec_module(_gen)

PROPERTY = 'C16'
ORACLE_SCANS = True     # props/C16/oracle.cpp searches its own operand battery: no inputs needed from the verifier's trace
NATIVE_FLAGS = ['-mavx2', '-mavx512f', '-D__AVX512__']
NATIVE_SOURCES = ['props/C16/wrappers.cpp']
LEVEL = 'proof'
TABLE = json.load(open(os.path.join(HERE, 'table.json')))
def _check_table():
    hs = _gen.heads(open(os.path.join(REPO, 'src', 'goldilocks_cubic_extension.hpp')).read())
    # compared by name and parameter classification (kind + parameter name): a changed integer width or const qualifier does not stale the generated files
    cl = lambda ps: [_gen.classify(p) for p in ps]
    if [(n, cl(p)) for n, p in hs] != [(t['name'], cl(t['params'])) for t in TABLE]:
        raise extract.ExtractError('C16: the routines defined in goldilocks_cubic_extension.hpp differ from props/C16/table.json (%d vs %d); re-run props/C16/gen.py' % (len(hs), len(TABLE)))
R3 = ['&', 'const &', 'const &']
def filt(repo_src, dst):
    _check_table()
    f = extract.cubic_filter(repo_src, dst)
    for op in ('mul', 'add', 'sub'):
        f.drop_function('goldilocks_base_field_scalar.hpp', 'Goldilocks::' + op, ptypes=['Element&', 'const Element&', 'const Element&'], expect=1, rule='E-callee')
    for op in ('add_avx', 'sub_avx', 'mult_avx'):
        f.drop_function('goldilocks_base_field_avx.hpp', 'Goldilocks::' + op, ptypes=['__m256i&', 'const __m256i&', 'const __m256i&'], expect=1, rule='E-callee')
        f.drop_function('goldilocks_base_field_avx512.hpp', 'Goldilocks::' + op + '512', ptypes=['__m512i&', 'const __m512i&', 'const __m512i&'], expect=1, rule='E-callee')
    # E-norm: a parameter of array type (Element_avx = __m256i[3], passed by value, i.e. as a pointer, or by reference and only subscripted) is written in
    # pointer form - CBMC's C++ front end does not apply the array-to-pointer adjustment of parameter types when resolving overloads
    fn = 'goldilocks_cubic_extension.hpp'
    n0 = len(re.findall(r'Goldilocks3::Element_avx(512)? \w+[,)]', f.files[fn]))
    f.replace_text(fn, 'E-norm', r'((?:const )?)Goldilocks3::Element_avx &?(\w+)(?=[,)])', r'\1__m256i *\2', tuple(range(0, 400)))
    f.replace_text(fn, 'E-norm', r'((?:const )?)Goldilocks3::Element_avx512 &?(\w+)(?=[,)])', r'\1__m512i *\2', tuple(range(0, 400)))
    return f
SRC = dict(cpp=['props/C16/wrappers.cpp', 'props/C16/forwarders.cpp'], c=['props/C16/contracts.c'], repo_cpp=['goldilocks_base_field.cpp', 'goldilocks_cubic_extension.cpp'])
GROUPS = {'v': Group('v', filt, defines=['VF_UF_ADDSUB'], cxx_defines=['VF_GMP_MODEL', '__AVX512__'], **SRC)}
for _p in (1, 2, 3, 4):
    GROUPS['v_s%d' % _p] = Group('v_s%d' % _p, filt, defines=['VF_UF_ADDSUB', 'VF_SHAPE=%d' % _p], cxx_defines=['VF_GMP_MODEL', '__AVX512__'], **SRC)
GROUPS['l'] = Group('l', filt, defines=['VF_UF_ADDSUB', 'VF_LIGHT'], cxx_defines=['VF_GMP_MODEL', '__AVX512__'], **SRC)
for _p in (1, 2, 3, 4):
    GROUPS['l_s%d' % _p] = Group('l_s%d' % _p, filt, defines=['VF_UF_ADDSUB', 'VF_LIGHT', 'VF_SHAPE=%d' % _p], cxx_defines=['VF_GMP_MODEL', '__AVX512__'], **SRC)
H = 'src/goldilocks_cubic_extension.hpp'
_qp = os.path.join(HERE, 'quick_ok.json')
_QOK = set(json.load(open(_qp))) if os.path.exists(_qp) else None
_ALL = bool(os.environ.get('VF_C16_SURVEY'))
UNITS = []
R = []   # the scalar callees are assume-stubs (props/C16/contracts.c)
_lp = os.path.join(HERE, 'light.json')
LIGHT = set(json.load(open(_lp))) if os.path.exists(_lp) else set()
if os.environ.get('VF_C16_LIGHT'): LIGHT |= set(os.environ['VF_C16_LIGHT'].split(','))
CHKL = ['--bounds-check', '--pointer-check', '--undefined-shift-check', '--signed-overflow-check', '--div-by-zero-check', '--no-malloc-may-fail']
for i, t in enumerate(TABLE):
    q = _ALL or _QOK is None or t['uid'] in _QOK
    common = dict(replace=R, tier='quick' if q else 'thorough', flags=['--unwind', '13', '--unwinding-assertions'], loops='unwind 13 (constant trip counts 3 / 4 / 8 / 12)',
                  functions=['Goldilocks3::%s(%s) (%s)' % (t['name'], ', '.join(t['params']), H)], timeout=300 if _ALL else 600)
    lt = t['uid'] in LIGHT
    if lt:
        common.update(replace=[], light=True, harness='hl_' + t['uid'], checks=CHKL, note='light mode: the dfcc encoding of this routine exceeds 256 addressed objects')
    # ext*ext multiplications through the vector kernels: one lane per unit (forwarders.cpp: vf_lane)
    lanes = list(range(t['W'])) if (t['ext_mul'] and not t['name'].endswith('_batch') and not lt) else [None]
    shapes = (1, 2, 3, 4) if (t['has_idx'] or t['has_stride']) else (None,)
    for _p in shapes:
        for _l in lanes:
            c2 = dict(common)
            nm, grp = t['uid'], ('l' if lt else 'v')
            if _p is not None:
                nm += '@shape%d' % _p; grp += '_s%d' % _p
                c2['bounded'] = 'strides / index lists fixed to concrete shape %d of 4 (all operand values symbolic)' % _p
                if not _ALL and _p != 1: c2['tier'] = 'thorough'
            if _l is not None:
                nm += '@lane%d' % _l; c2['harness'] = 'h_%s_l%d' % (t['uid'], _l)
                c2['note'] = 'element %d of %d (the other lanes of every kernel result unconstrained)' % (_l, t['W'])
                if not _ALL and _l not in (0, t['W'] - 1): c2['tier'] = 'thorough'
            if t['ext_mul'] and t['name'].endswith('_batch'):
                c2['timeout'] = 1500; c2['note'] = 'scalar-loop ext*ext: all four elements in one query (no lane to key on), about 5 min'
                if not _ALL: c2['tier'] = 'thorough'
            UNITS.append(Unit(nm, grp, t['uid'], **c2))
TRUSTED_BASE = ['the reading of each definition head (props/C16/gen.py: operand arities from the name, result / operands / strides by parameter type and name) - validated by the proofs: a wrong reading fails on the unchanged tree',
                'caller-facing contracts of the scalar add / sub / mul and of add_avx / sub_avx / mult_avx (and AVX-512 twins), lane-wise, over uninterpreted addmod / submod / mulmod (enforced in C01, C02, C11)',
                'lemmas cubic_mul, cubic_mul_r1 (Lean): the Karatsuba DAG equals the product in F_p[x]/(x^3-x-1)', 'L0 intrinsic table; CBMC C++ front end, dfcc, cadical']
ASSUMPTIONS = ['strides and index entries <= 2^20', 'result disjoint from the operands; result elements pairwise disjoint (stride_c >= 3, output index entries at least 3 apart)',
               'precomputed-sum parameters (b_[3], aux0_..aux2_) hold b0+b1, b0+b2, b1+b2 (precondition)']
EXPLANATION = ('%d routines (add / sub / mul families and the 3 planar<->interleaved copies).  Routines without stride / index-list parameters are proved outright; the others for all operand values on '
               'four concrete stride / index shapes (bounded in that dimension: coverage.bounded).' % len(TABLE))
MANIFEST_ENTRY = dict(category='proof', technique='generated CBMC code contracts (one per routine, from the definition heads) over uninterpreted field operations, exact-extent operands and exact assigns sets; Lean lemma for the Karatsuba form',
    text='%d batched / AVX2 / AVX-512 cubic-extension routines: element k, coefficient i of the result = the scalar extension operation on the k-th operands; frames exact.' % len(TABLE),
    note='quick tier: stride-free routines + shape 1, first and last element of the one-lane units; thorough: 4 concrete shapes (bounded), every element, the seven scalar-loop ext*ext routines; aliasing of result and operands not covered; strides < 2^20.')

LEMMAS = ['cubic_mul', 'cubic_mul_r1', 'cubic_mul_base']
def extra_checks(rn, tier, ginfos):
    from vf import lean
    r = lean.check_lemmas(LEMMAS)
    if r.get('lean_failed'):
        path = os.path.join(os.environ.get('VF_REPLAY_DIR', os.path.join(os.path.dirname(os.path.dirname(HERE)), 'replay', 'out')), PROPERTY)
        os.makedirs(path, exist_ok=True)
        f = os.path.join(path, 'lean-lemmas.json')
        json.dump(dict(property=PROPERTY, obligation='Lean lemmas ' + ', '.join(LEMMAS), verifier_output=r.get('lean_output', '')), open(f, 'w'), indent=1)
        r['violations'] = ['VIOLATION property=%s replay=%s [Lean lemma no longer accepted] no-failing-input-found' % (PROPERTY, f)]
    return r
