#!/usr/bin/env python3
"""Generator for C16: one wrapper + contract + harness per batched / AVX2 / AVX-512 overload of the cubic-extension header,
derived from the DEFINITION HEADS in /repo/src/goldilocks_cubic_extension.hpp (the routines are defined in the class body).

Reading of a head (validated by the proofs themselves: a wrong reading makes the unit fail on the unchanged tree):
  name  = <op><sig>_<family>      op in add|sub|mul|copy ; family batch|avx (4 elements) | avx512 (8 elements)
          sig: '' = ext,ext ; each digit is the arity of operand a resp. b (1 = base-field element, 3 = extension element),
          a following 'c' = that operand is one constant broadcast to every element k.  OVERRIDES lists the heads whose name
          does not say what the body does (found by a failing proof, then read).
  result = first parameter: `Goldilocks::Element *` (interleaved: element k at [3k+i], or [k*stride_c+i] / [stride_c[k]+i]
          when a stride_c parameter follows) | `Element_avx[512]` (planar: register i, lane k) | three registers c0_,c1_,c2_
  operands in order a, b: `Goldilocks::Element *` array (interleaved ext / one base element per k; its stride / offset
          parameter is attached by name: *_a, *0 -> a ; *_b, *1 -> b ; bare `stride` -> the array before it),
          `Goldilocks::Element` value (constant base), `Element &` (constant ext), `Element_avx` planar, `__m256i &` lane = k,
          three registers x0_,x1_,x2_ planar
  trailing `b_[3]` / `aux0_,aux1_,aux2_`: precomputed sums (b0+b1, b0+b2, b1+b2) of the second operand - a precondition.
  element k, coefficient i of the result = coefficient i of   a_k (op) b_k   in F_p[x]/(x^3-x-1), in the C09 vocabulary:
  coefficient-wise add / sub, base (x) ext = scalar multiple, ext * ext = the Karatsuba DAG proved equal to the product by
  the Lean lemma cubic_mul (both association orders of the middle coefficient are accepted: lemma cubic_mul_r1).
The generated files are committed; `units.py` re-derives the head list on every run and aborts (exit 2) if it differs."""
import json, os, re, sys
HERE = os.path.dirname(os.path.abspath(__file__))
SB = 1 << 20
HDR = 'goldilocks_cubic_extension.hpp'

# heads whose name does not describe the operand shape; value = sig actually implemented
OVERRIDES = {
    # the challenge variant: b is ONE extension element (b[0..2]) for all four elements, b_[3] its precomputed sums (proof of the '33' reading failed; body read)
    'mul_batch(Goldilocks::Element *result, Goldilocks::Element *a, Goldilocks::Element *b, Goldilocks::Element b_[3])': '33c',
}


def heads(hdr_text):
    out = []
    for m in re.finditer(r'^[ \t]*static (?:inline )?void (\w+)\(([^)]*)\)\s*\n\s*\{', hdr_text, re.M):
        name, params = m.group(1), re.sub(r'\s+', ' ', m.group(2)).strip()
        if not re.match(r'^(add|sub|mul|copy)\w*_(batch|avx|avx512)$', name):
            continue
        out.append((name, [p.strip() for p in params.split(',')]))
    return out


def classify(p):
    p = re.sub(r'\bconst\s+', '', p).strip()
    m = re.match(r'^uint(?:64|32)_t (\w+)\[\w+\]$', p)
    if m: return ('idx', m.group(1))
    m = re.match(r'^uint(?:64|32)_t (\w+)$', p)
    if m: return ('stride', m.group(1))
    m = re.match(r'^Goldilocks::Element (\w+)\[3\]$', p)
    if m: return ('auxarr', m.group(1))
    m = re.match(r'^Goldilocks::Element \*(\w+)$', p)
    if m: return ('arr', m.group(1))
    m = re.match(r'^Goldilocks::Element (\w+)$', p)
    if m: return ('value', m.group(1))
    m = re.match(r'^Element &(\w+)$', p)
    if m: return ('ext3', m.group(1))
    m = re.match(r'^Goldilocks3::Element_avx(?:512)? &?(\w+)$', p)
    if m: return ('planar', m.group(1))
    m = re.match(r'^__m(?:256|512)i &?(\w+)$', p)
    if m: return ('reg', m.group(1))
    raise SystemExit('gen16: cannot classify parameter %r' % p)


def shape(name, plist):
    W = 8 if name.endswith('512') else 4
    m = re.match(r'^(add|sub|mul|copy)(\w*?)_(batch|avx|avx512)$', name)
    op, sig = m.group(1), m.group(2)
    sig = OVERRIDES.get('%s(%s)' % (name, ', '.join(plist)), sig)
    toks = re.findall(r'([13])(c?)', sig) if sig else [('3', ''), ('3', '')]
    if ''.join(a + c for a, c in toks) != (sig or '33'):
        raise SystemExit('gen16: cannot read signature %r of %s' % (sig, name))
    kinds = [classify(p) for p in plist]
    # objects: consecutive registers x0_, x1_, x2_ form one planar triple
    objs, strides, i = [], [], 0
    while i < len(kinds):
        k, n = kinds[i]
        if k in ('stride', 'idx'):
            strides.append((i, k, n)); i += 1; continue
        if k == 'reg' and re.match(r'^\w+0_$', n) and i + 2 < len(kinds) and kinds[i + 1] == ('reg', n[:-2] + '1_') and kinds[i + 2] == ('reg', n[:-2] + '2_'):
            objs.append(dict(kind='triple', name=n[:-2], argi=i, pos='none')); i += 3; continue
        objs.append(dict(kind=k, name=n, argi=i, pos='none')); i += 1
    res = objs[0]
    if res['kind'] not in ('arr', 'planar', 'triple'):
        raise SystemExit('gen16: first parameter of %s is not a result' % name)
    ops = objs[1:]
    aux = None
    if op == 'copy':
        toks = [('3', '')]
    if len(ops) == len(toks) + 1 and ops[-1]['kind'] in ('auxarr', 'triple') and op == 'mul':
        aux = ops.pop()
    if len(ops) != len(toks):
        raise SystemExit('gen16: %s(%s): %d operands for signature %r' % (name, ', '.join(plist), len(ops), sig))
    for o, (ar, c) in zip(ops, toks):
        o['arity'] = int(ar); o['const'] = bool(c)
        if o['kind'] in ('value',): o['const'] = True
        if o['kind'] == 'ext3': o['const'] = True
    res['arity'] = 3; res['const'] = False
    for (i, k, n) in strides:
        base = re.sub(r'^(offsets|offset|stride)_?', '', n)
        cand = None
        if base in ('c', 'dst'): cand = res
        elif base in ('a', '0'): cand = ops[0]
        elif base in ('b', '1'): cand = ops[1] if len(ops) > 1 else None
        elif base == '':
            prev = [o for o in ops if o['argi'] < i and o['kind'] == 'arr']
            cand = prev[-1] if prev else None
        if cand is None or cand['kind'] != 'arr' or cand['pos'] != 'none':
            raise SystemExit('gen16: cannot attach %s %s in %s(%s)' % (k, n, name, ', '.join(plist)))
        cand['pos'] = k; cand['posargi'] = i
    return dict(name=name, op=op, W=W, sig=sig, res=res, ops=ops, aux=aux, kinds=kinds, params=plist)


def where(o, k, i, W):
    """(array variable, index expression) of coefficient i of element k of object o ; (value variable, None) for a value parameter"""
    v = 'p%d' % o['argi']
    kd = o['kind']
    if kd == 'value': return v, None
    if kd == 'ext3': return v, '%d' % i
    if kd == 'planar': return v, '%d' % (W * i + k)
    if kd == 'reg': return v, '%d' % k
    if kd == 'triple': return 'p%d' % (o['argi'] + i), '%d' % k
    # arr
    if o.get('const'): return v, '%d' % i
    ar = o['arity']
    if o['pos'] == 'none': return v, '%d' % ((3 * k + i) if ar == 3 else k)
    if o['pos'] == 'stride': return v, '%d * p%d + %d' % (k, o['posargi'], i)
    return v, 'p%d[%d] + %d' % (o['posargi'], k, i)


def at(o, k, i, W):
    """C expression (contract side) of coefficient i of element k of object o"""
    v, ix = where(o, k, i, W)
    return v if ix is None else '%s[%s]' % (v, ix)


def gen(hs, prefix='g16'):
    wr, ct, table, orc = [], [], [], []
    for n, (name, plist) in enumerate(hs):
        sh = shape(name, plist)
        W, op = sh['W'], sh['op']
        V = '__m512i' if W == 8 else '__m256i'
        LD = '_mm512_loadu_si512((const void *)(%s))' if W == 8 else '_mm256_loadu_si256((const __m256i *)(%s))'
        ST = '_mm512_storeu_si512((void *)(%s), %s)' if W == 8 else '_mm256_storeu_si256((__m256i *)(%s), %s)'
        uid = '%s_%03d_%s' % (prefix, n, name)
        res, ops, aux = sh['res'], sh['ops'], sh['aux']
        allobjs = [res] + ops + ([aux] if aux else [])
        # ------------------------------------------------ wrapper (C++)
        cpar, pre, args, post = {}, [], [None] * len(plist), []
        for o in allobjs:
            i = o['argi']; v = 'p%d' % i; out = o is res
            kd = o['kind']
            if kd in ('arr', 'auxarr'): cpar[i] = 'uint64_t *%s' % v; args[i] = '(E *)%s' % v
            elif kd == 'value': cpar[i] = 'uint64_t %s' % v; pre.append('E e%d = {%s};' % (i, v)); args[i] = 'e%d' % i
            elif kd == 'ext3': cpar[i] = 'uint64_t *%s' % v; args[i] = '*(E3 *)%s' % v
            elif kd == 'planar':
                cpar[i] = 'uint64_t *%s' % v; args[i] = 'x%d' % i
                if out: pre.append('%s x%d[3];' % (V, i)); post += [(ST % ('%s + %d' % (v, W * j), 'x%d[%d]' % (i, j))) + ';' for j in range(3)]
                else: pre.append('%s x%d[3]; %s' % (V, i, ' '.join('x%d[%d] = %s;' % (i, j, LD % ('%s + %d' % (v, W * j))) for j in range(3))))
            elif kd == 'reg':
                cpar[i] = 'uint64_t *%s' % v; args[i] = 'v%d' % i
                pre.append('%s v%d = %s;' % (V, i, LD % v))
            elif kd == 'triple':
                for j in range(3):
                    cpar[i + j] = 'uint64_t *p%d' % (i + j); args[i + j] = 'v%d' % (i + j)
                    if out: pre.append('%s v%d;' % (V, i + j)); post.append((ST % ('p%d' % (i + j), 'v%d' % (i + j))) + ';')
                    else: pre.append('%s v%d = %s;' % (V, i + j, LD % ('p%d' % (i + j))))
            if o.get('pos') == 'stride': j = o['posargi']; cpar[j] = 'uint64_t p%d' % j; args[j] = 'p%d' % j
            if o.get('pos') == 'idx': j = o['posargi']; cpar[j] = 'uint64_t *p%d' % j; args[j] = 'p%d' % j
        if None in args:
            raise SystemExit('gen16: unbound argument in %s(%s)' % (name, ', '.join(plist)))
        order = sorted(cpar)
        wr.append('extern "C" void %s(%s) { %s Goldilocks3::%s(%s); %s }' % (uid, ', '.join(cpar[i] for i in order), ' '.join(pre), name, ', '.join(args), ' '.join(post)))
        # ------------------------------------------------ contract (C)
        req = []
        def extent(o):
            v = 'p%d' % o['argi']; kd = o['kind']; ar = o.get('arity', 3)
            if kd == 'value': return []
            if kd in ('ext3', 'auxarr'): return [(v, '3')]
            if kd == 'planar': return [(v, str(3 * W))]
            if kd == 'reg': return [(v, str(W))]
            if kd == 'triple': return [('p%d' % (o['argi'] + j), str(W)) for j in range(3)]
            if o.get('const'): return [(v, str(ar))]
            if o['pos'] == 'none': return [(v, str(ar * W))]
            io = 'OUT' if o is res else ('INB' if (len(ops) > 1 and o is ops[1]) else 'IN')
            if o['pos'] == 'stride':
                j = o['posargi']; req.append('p%d <= %d' % (j, SB)); req.append('STRIDEPAT_%s%d(p%d)' % (io, ar, j))
                return [(v, '(%d * p%d + %d)' % (W - 1, j, ar))]
            j = o['posargi']; req.append('FRESH_IDX(p%d, %d)' % (j, 8 * W)); req.extend('p%d[%d] <= %d' % (j, k, SB) for k in range(W)); req.append('IDXPAT_%s%d_%d(p%d)' % (io, ar, W, j))
            mx = 'p%d[0]' % j
            for k in range(1, W): mx = 'VMAX(%s, p%d[%d])' % (mx, j, k)
            return [(v, '(%s + %d)' % (mx, ar))]
        fresh = []
        for o in allobjs:
            fresh += extent(o)
        req += ['__CPROVER_is_fresh(%s, 8 * %s)' % (v, e) for v, e in fresh]
        if res['kind'] == 'arr' and res['pos'] == 'stride': req.append('p%d >= 3' % res['posargi'])
        if res['kind'] == 'arr' and res['pos'] == 'idx':
            j = res['posargi']; req += ['DISJ3(p%d[%d], p%d[%d])' % (j, a, j, b) for a in range(W) for b in range(a + 1, W)]
        snaps = {}
        def old_dfcc(e): return e if re.match(r'^p\d+$', e) else '__CPROVER_old(%s)' % e
        def old_light(e):
            if re.match(r'^p\d+$', e): return e
            return snaps.setdefault(e, 's%d_' % len(snaps))
        old = old_dfcc
        def C(o, k, i): return 'canon(%s)' % old(at(o, k, i, W))
        auxreq = []
        if aux:
            b = ops[1]
            auxat = (lambda j: 'p%d[%d]' % (aux['argi'], j)) if aux['kind'] == 'auxarr' else None
            for k in (range(W) if aux['kind'] == 'triple' else [0]):
                X = (lambda j: 'p%d[%d]' % (aux['argi'] + j, k)) if aux['kind'] == 'triple' else auxat
                Bk = lambda i: 'canon(%s)' % at(b, k, i, W)
                auxreq += ['canon(%s) == addmod(%s, %s)' % (X(0), Bk(0), Bk(1)), 'canon(%s) == addmod(%s, %s)' % (X(1), Bk(0), Bk(2)), 'canon(%s) == addmod(%s, %s)' % (X(2), Bk(1), Bk(2))]
        req += auxreq
        assigns = [at(res, k, i, W) for k in range(W) for i in range(3)]
        def ensures():
          ens = []
          for k in range(W):
            ens.append(('lane', k))
            R = lambda i: 'canon(%s)' % at(res, k, i, W)
            if op == 'copy':
                ens += ['%s == %s' % (at(res, k, i, W), old(at(ops[0], k, i, W))) for i in range(3)]
                continue
            a, b = ops
            A = (lambda i: C(a, k, i)) if a['arity'] == 3 else (lambda i: C(a, k, 0))
            B = (lambda i: C(b, k, i)) if b['arity'] == 3 else (lambda i: C(b, k, 0))
            ar = (a['arity'], b['arity'])
            if op in ('add', 'sub'):
                f = 'addmod' if op == 'add' else 'submod'
                if ar == (3, 3): ens += ['%s == %s(%s, %s)' % (R(i), f, A(i), B(i)) for i in range(3)]
                elif ar == (3, 1): ens += ['%s == %s(%s, %s)' % (R(0), f, A(0), B(0)), '%s == %s' % (R(1), A(1)), '%s == %s' % (R(2), A(2))]
                elif ar == (1, 3):
                    ens.append('%s == %s(%s, %s)' % (R(0), f, A(0), B(0)))
                    ens += ['%s == %s' % (R(i), B(i) if op == 'add' else 'negmod(%s)' % B(i)) for i in (1, 2)]
                else: raise SystemExit('gen16: arity %r in %s' % (ar, name))
            else:
                if ar == (3, 3):
                    t = ', '.join([A(0), A(1), A(2), B(0), B(1), B(2)])
                    ens += ['%s == F3M0(%s)' % (R(0), t), '(%s == F3M1(%s) || %s == F3M1R(%s))' % (R(1), t, R(1), t), '%s == F3M2(%s)' % (R(2), t)]
                elif ar == (3, 1): ens += ['%s == MULK(%s, %s)' % (R(i), A(i), B(0)) for i in range(3)]
                elif ar == (1, 3): ens += ['%s == MULK(%s, %s)' % (R(i), A(0), B(i)) for i in range(3)]
                else: raise SystemExit('gen16: arity %r in %s' % (ar, name))
          out, cur = [], None
          for e in ens:
              if isinstance(e, tuple):
                  cur = []; out.append((e[1], cur))
              else: cur.append(e)
          return ['(VF_LANE_OFF(%d) || (%s))' % (k, ' && '.join(es)) for k, es in out]
        ens = ensures()
        cdecl = {i: re.sub(r'uint64_t', 'u64', cpar[i]) for i in order}
        ct.append('#ifndef VF_LIGHT\nvoid %s(%s)\n  __CPROVER_requires(%s)\n  __CPROVER_assigns(%s)\n  __CPROVER_ensures(%s);' % (
            uid, ', '.join(cdecl[i] for i in order), ' && '.join(req) or '1', ', '.join(assigns), '\n    && '.join(ens)))
        special = {}
        for o in allobjs:
            io = 'OUT' if o is res else ('INB' if (len(ops) > 1 and o is ops[1]) else 'IN')
            if o.get('pos') == 'stride': special[o['posargi']] = 'SH_STRIDE_%s%d(p%d)' % (io, o.get('arity', 3), o['posargi'])
            if o.get('pos') == 'idx': special[o['posargi']] = 'SH_IDX_%s%d_%d(p%d)' % (io, o.get('arity', 3), W, o['posargi'])
        hb = '%s; %s(%s); VF_SENTINEL;' % ('; '.join(cdecl[i] for i in order), uid, ', '.join(special.get(i, 'p%d' % i) for i in order))
        ext_mul = (op == 'mul' and (ops[0]['arity'], ops[1]['arity']) == (3, 3))
        hs_ = ['void h_%s(void) { vf_lane = 99; %s }' % (uid, hb)]
        if ext_mul: hs_ += ['void h_%s_l%d(void) { vf_lane = %d; %s }' % (uid, k, k, hb) for k in range(W)]
        ct.append('%s\n#else\nvoid %s(%s);\n#endif\n' % ('\n'.join(hs_), uid, ', '.join(cdecl[i] for i in order)))
        # ---------- light harness (no dfcc): exact-extent heap operands, snapshots for old values, one symbolic index per array for the frame
        old = old_light; snaps.clear(); ensl = ensures(); old = old_dfcc
        L = []
        for i in order:
            if i in special: L.append('%s = %s;' % (cdecl[i], special[i]))
        for i in order:
            if i not in special and '*' not in cdecl[i]: L.append('%s;' % cdecl[i])
        for v, e in fresh: L.append('u64 *%s = malloc(8 * %s);' % (v, e))
        if auxreq: L.append('__CPROVER_assume(%s);' % ' && '.join(auxreq))
        for e, nm in snaps.items(): L.append('u64 %s = %s;' % (nm, e))
        resvars = set(where(res, k, i, W)[0] for k in range(W) for i in range(3))
        for v, e in fresh: L.append('u64 j_%s; __CPROVER_assume(j_%s < %s); u64 o_%s = %s[j_%s];' % (v, v, e, v, v, v))
        L.append('vf_lane = 99; %s(%s);' % (uid, ', '.join('p%d' % i for i in order)))
        for q, e in enumerate(ensl): L.append('__CPROVER_assert(%s, "%s.postcondition.%d (light)");' % (e, uid, q + 1))
        for v, e in fresh:
            if v in resvars:
                if res['kind'] != 'arr': continue
                des = ' || '.join('j_%s == %s' % (v, where(res, k, i, W)[1]) for k in range(W) for i in range(3))
                L.append('__CPROVER_assert(%s || %s[j_%s] == o_%s, "%s.frame: only the designated positions of the result are written (light)");' % (des, v, v, v, uid))
            else:
                L.append('__CPROVER_assert(%s[j_%s] == o_%s, "%s.frame: operand %s unchanged (light)");' % (v, v, v, uid, v))
        cond = 'defined(VF_LIGHT)' + (' && defined(VF_SHAPE)' if special else '')
        ct.append('#if %s\nvoid hl_%s(void) {\n  %s\n  VF_SENTINEL; }\n#endif\n' % (cond, uid, '\n  '.join(L)))
        # ---------- native scanning oracle (C++): the same reading, evaluated with independent reference arithmetic on the real routine
        O = []
        for i in order:
            if i in special:
                io_ar = re.match(r'SH_(STRIDE|IDX)_(INB|IN|OUT)(\d)', special[i]).groups()
                if io_ar[0] == 'STRIDE': O.append('const uint64_t p%d = SHP[shape].s%s%s;' % (i, {'OUT': 'o', 'IN': 'i', 'INB': 'j'}[io_ar[1]], io_ar[2]))
                else: O.append('uint64_t *p%d = (uint64_t *)SHP[shape].x%s%s_%d;' % (i, {'OUT': 'o', 'IN': 'i', 'INB': 'j'}[io_ar[1]], io_ar[2], W))
        for i in order:
            if i not in special and '*' not in cdecl[i]: O.append('uint64_t p%d = R.next();' % i)
        for v, e in fresh: O.append('std::vector<uint64_t> V%s(%s); for (auto &x_ : V%s) x_ = R.next(); uint64_t *%s = V%s.data();' % (v, e.replace('VMAX', 'std::max<uint64_t>'), v, v, v))
        if aux:
            b = ops[1]
            for k in (range(W) if aux['kind'] == 'triple' else [0]):
                X = (lambda j: 'p%d[%d]' % (aux['argi'] + j, k)) if aux['kind'] == 'triple' else (lambda j: 'p%d[%d]' % (aux['argi'], j))
                Bk = lambda i_: at(b, k, i_, W)
                O.append('%s = R.repr(ref_add(%s, %s)); %s = R.repr(ref_add(%s, %s)); %s = R.repr(ref_add(%s, %s));' % (X(0), Bk(0), Bk(1), X(1), Bk(0), Bk(2), X(2), Bk(1), Bk(2)))
        for v, e in fresh: O.append('std::vector<uint64_t> O%s(V%s);' % (v, v))
        O.append('%s(%s);' % (uid, ', '.join('p%d' % i for i in order)))
        def oat(o, k, i_):
            v, ix = where(o, k, i_, W)
            return v if ix is None else 'O%s[%s]' % (v, ix)
        for k in range(W):
            if op == 'copy':
                for i_ in range(3): O.append('CHK(%s == %s, %d, %d);' % (at(res, k, i_, W), oat(ops[0], k, i_), k, i_))
                continue
            a, b = ops
            A = (lambda i_: oat(a, k, i_)) if a['arity'] == 3 else (lambda i_: oat(a, k, 0))
            B = (lambda i_: oat(b, k, i_)) if b['arity'] == 3 else (lambda i_: oat(b, k, 0))
            ar = (a['arity'], b['arity'])
            Rr = lambda i_: '%s %% REF_P' % at(res, k, i_, W)
            if op in ('add', 'sub'):
                f = 'ref_add' if op == 'add' else 'ref_sub'
                if ar == (3, 3): ex = ['%s(%s, %s)' % (f, A(i_), B(i_)) for i_ in range(3)]
                elif ar == (3, 1): ex = ['%s(%s, %s)' % (f, A(0), B(0)), '%s %% REF_P' % A(1), '%s %% REF_P' % A(2)]
                else: ex = ['%s(%s, %s)' % (f, A(0), B(0))] + [('%s %% REF_P' % B(i_)) if op == 'add' else 'ref_neg(%s)' % B(i_) for i_ in (1, 2)]
            else:
                if ar == (3, 3): ex = ['ref_f3mul(%d, %s)' % (i_, ', '.join([A(0), A(1), A(2), B(0), B(1), B(2)])) for i_ in range(3)]
                elif ar == (3, 1): ex = ['ref_mul(%s, %s)' % (A(i_), B(0)) for i_ in range(3)]
                else: ex = ['ref_mul(%s, %s)' % (A(0), B(i_)) for i_ in range(3)]
            for i_ in range(3): O.append('CHK(%s == %s, %d, %d);' % (Rr(i_), ex[i_], k, i_))
        resvars = set(where(res, k, i_, W)[0] for k in range(W) for i_ in range(3))
        for v, e in fresh:
            if v in resvars:
                if res['kind'] != 'arr': continue
                O.append('{ std::vector<char> des(V%s.size(), 0); %s for (size_t j = 0; j < V%s.size(); j++) FRAME(des[j] || V%s[j] == O%s[j], "%s", j); }' % (
                    v, ' '.join('des[%s] = 1;' % where(res, k, i_, W)[1] for k in range(W) for i_ in range(3)), v, v, v, v))
            else:
                O.append('for (size_t j = 0; j < V%s.size(); j++) FRAME(V%s[j] == O%s[j], "%s", j);' % (v, v, v, v))
        pro = 'void %s(%s);' % (uid, ', '.join(cpar[i] for i in order))
        orc.append((uid, name.endswith('512'), pro, 'static int t_%s(int shape, vf_rng &R) { int bad = 0; const char *U = "%s";\n  %s\n  return bad; }' % (uid, uid, '\n  '.join(O))))
        has_idx = any(o.get('pos') == 'idx' for o in allobjs); has_stride = any(o.get('pos') == 'stride' for o in allobjs)
        nmul = op == 'mul'
        table.append(dict(uid=uid, name=name, params=plist, op=op, W=W, sig=sh['sig'], has_idx=has_idx, has_stride=has_stride,
                          ext_mul=(op == 'mul' and (ops[0]['arity'], ops[1]['arity']) == (3, 3))))
    return wr, ct, table, orc


LARGE = 4099
def arr(xs): return '{' + ','.join(str(x) for x in xs) + '}'
def shape_table():
    return {
     1: dict(doc='natural: ext stride 3, base stride 1, index lists reversed (second operand: strides 4 / 2, lists in order with a gap)', s3=3, s1=1, so=3, i3=lambda W, k: 3 * (W - 1 - k), i1=lambda W, k: W - 1 - k, o3=lambda W, k: 3 * ((k + 1) % W),
             s3b=4, s1b=2, i3b=lambda W, k: 4 * k + 1, i1b=lambda W, k: 2 * k + 1),
     2: dict(doc='ext stride 1 (overlapping reads), base stride 3, output stride 5, index lists permuted and spread', s3=1, s1=3, so=5, i3=lambda W, k: 4 * ((5 * k + 3) % 11), i1=lambda W, k: (5 * k + 3) % 11, o3=lambda W, k: 4 * ((3 * k + 1) % 11),
             s3b=2, s1b=5, i3b=lambda W, k: 3 * ((7 * k + 2) % 11), i1b=lambda W, k: (7 * k + 2) % 11),
     3: dict(doc='input strides 0 (every element reads element 0), output stride 4, input index lists constant 5, output lists permuted', s3=0, s1=0, so=4, i3=lambda W, k: 5, i1=lambda W, k: 5, o3=lambda W, k: 3 * ((5 * k + 3) % 11),
             s3b=0, s1b=0, i3b=lambda W, k: 2, i1b=lambda W, k: 7),
     4: dict(doc='large strides %d, index lists k*%d' % (LARGE, LARGE), s3=LARGE, s1=LARGE, so=LARGE + 1, i3=lambda W, k: k * LARGE, i1=lambda W, k: k * LARGE, o3=lambda W, k: ((k + 1) % W) * LARGE,
             s3b=LARGE + 2, s1b=LARGE + 2, i3b=lambda W, k: (W - 1 - k) * LARGE, i1b=lambda W, k: (W - 1 - k) * LARGE),
    }
def shapes_inc():
    out = []
    shapes = shape_table()
    for n, s in shapes.items():
        out.append('%s VF_SHAPE == %d /* %s */' % ('#if' if n == 1 else '#elif', n, s['doc']))
        for W in (4, 8):
            for tag, f in (('I3', s['i3']), ('I1', s['i1']), ('O3', s['o3']), ('J3', s['i3b']), ('J1', s['i1b'])):
                out.append('static const u64 SH%s_%d[%d] = %s;' % (tag, W, W, arr(f(W, k) for k in range(W))))
        out.append('#define SH_STRIDE_IN3(p) ((u64)%d)\n#define SH_STRIDE_IN1(p) ((u64)%d)\n#define SH_STRIDE_OUT3(p) ((u64)%d)\n#define SH_STRIDE_INB3(p) ((u64)%d)\n#define SH_STRIDE_INB1(p) ((u64)%d)' % (s['s3'], s['s1'], s['so'], s['s3b'], s['s1b']))
        out.append('#define STRIDEPAT_IN3(s) ((s) == %d)\n#define STRIDEPAT_IN1(s) ((s) == %d)\n#define STRIDEPAT_OUT3(s) ((s) == %d)\n#define STRIDEPAT_INB3(s) ((s) == %d)\n#define STRIDEPAT_INB1(s) ((s) == %d)' % (s['s3'], s['s1'], s['so'], s['s3b'], s['s1b']))
        for W in (4, 8):
            for io, ar, tag, f in (('IN', 3, 'I3', s['i3']), ('IN', 1, 'I1', s['i1']), ('OUT', 3, 'O3', s['o3']), ('INB', 3, 'J3', s['i3b']), ('INB', 1, 'J1', s['i1b'])):
                out.append('#define SH_IDX_%s%d_%d(p) ((u64 *)SH%s_%d)' % (io, ar, W, tag, W))
                out.append('#define IDXPAT_%s%d_%d(p) (%s)' % (io, ar, W, ' && '.join('p[%d] == %d' % (k, f(W, k)) for k in range(W))))
        out.append('#define FRESH_IDX(p, n) 1')
    out.append('#else /* symbolic strides / index lists */')
    out.append('#define SH_STRIDE_IN3(p) p\n#define SH_STRIDE_IN1(p) p\n#define SH_STRIDE_OUT3(p) p\n#define SH_STRIDE_INB3(p) p\n#define SH_STRIDE_INB1(p) p\n#define STRIDEPAT_IN3(s) 1\n#define STRIDEPAT_IN1(s) 1\n#define STRIDEPAT_OUT3(s) 1\n#define STRIDEPAT_INB3(s) 1\n#define STRIDEPAT_INB1(s) 1')
    for W in (4, 8):
        for io, ar in (('IN', 3), ('IN', 1), ('OUT', 3), ('INB', 3), ('INB', 1)):
            out.append('#define SH_IDX_%s%d_%d(p) p\n#define IDXPAT_%s%d_%d(p) 1' % (io, ar, W, io, ar, W))
    out.append('#define FRESH_IDX(p, n) __CPROVER_is_fresh(p, n)\n#endif')
    return '/* GENERATED by props/C16/gen.py (shape tables) -- do not edit */\n' + '\n'.join(out) + '\n'


if __name__ == '__main__':
    hdr = open('/repo/src/' + HDR).read()
    hs = heads(hdr)
    wr, ct, table, orc = gen(hs)
    open(os.path.join(HERE, 'wrappers.cpp'), 'w').write('// GENERATED by props/C16/gen.py -- do not edit\n#include "goldilocks_base_field.hpp"\n#include "goldilocks_cubic_extension.hpp"\ntypedef Goldilocks::Element E;\ntypedef Goldilocks3::Element E3;\n' +
        '\n'.join(w if not t['name'].endswith('512') else '#ifdef __AVX512__\n%s\n#endif' % w for w, t in zip(wr, table)) + '\n')
    json.dump(table, open(os.path.join(HERE, 'table.json'), 'w'), indent=0)
    open(os.path.join(HERE, 'contracts_gen.inc'), 'w').write('/* GENERATED by props/C16/gen.py -- do not edit */\n' + '\n'.join(ct) + '\n')
    open(os.path.join(HERE, 'shapes.inc'), 'w').write(shapes_inc())
    # native oracle tables
    sh = shape_table()
    L = ['// GENERATED by props/C16/gen.py -- do not edit', 'struct vf_shape { uint64_t si3, si1, so3, sj3, sj1; uint64_t xi3_4[4], xi1_4[4], xo3_4[4], xi3_8[8], xi1_8[8], xo3_8[8], xj3_4[4], xj1_4[4], xj3_8[8], xj1_8[8]; };',
         'static vf_shape SHP[5] = { {},']
    for n_ in (1, 2, 3, 4):
        s_ = sh[n_]
        L.append('  { %d, %d, %d, %d, %d, %s, %s, %s, %s, %s, %s, %s, %s, %s, %s },' % (s_['s3'], s_['s1'], s_['so'], s_['s3b'], s_['s1b'], arr(s_['i3'](4, k) for k in range(4)), arr(s_['i1'](4, k) for k in range(4)), arr(s_['o3'](4, k) for k in range(4)),
                                                             arr(s_['i3'](8, k) for k in range(8)), arr(s_['i1'](8, k) for k in range(8)), arr(s_['o3'](8, k) for k in range(8)),
                                                             arr(s_['i3b'](4, k) for k in range(4)), arr(s_['i1b'](4, k) for k in range(4)), arr(s_['i3b'](8, k) for k in range(8)), arr(s_['i1b'](8, k) for k in range(8))))
    L.append('};')
    L.append('extern "C" {')
    for uid, is512, pro, body in orc: L.append(pro if not is512 else '#ifdef __AVX512__\n%s\n#endif' % pro)
    L.append('}')
    for uid, is512, pro, body in orc: L.append(body if not is512 else '#ifdef __AVX512__\n%s\n#endif' % body)
    L.append('struct vf_entry { const char *uid; int (*fn)(int, vf_rng &); };\nstatic vf_entry TESTS[] = {')
    for uid, is512, pro, body in orc: L.append(('  {"%s", t_%s},' % (uid, uid)) if not is512 else '#ifdef __AVX512__\n  {"%s", t_%s},\n#endif' % (uid, uid))
    L.append('  {0, 0} };')
    open(os.path.join(HERE, 'oracle_gen.inc'), 'w').write('\n'.join(L) + '\n')
    print(len(table), 'overloads')
    from collections import Counter
    print(Counter((t['op'], t['W']) for t in table))
