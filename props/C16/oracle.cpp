// C16 native oracle (scanning): runs the REAL batched / AVX2 / AVX-512 routine through the proof's wrapper on a battery of operand
// values (edge values, non-canonical representations, random words) at the unit's concrete stride / index shape, on exact-extent heap
// operands (AddressSanitizer sees any access outside the designated extents), and checks every coefficient of every element
// against independent unsigned __int128 arithmetic in F_p[x]/(x^3-x-1), plus the frame (undesignated result positions and all
// operands unchanged).  The per-routine code is generated from the same reading as the contracts (oracle_gen.inc).
#include <cstdint>
#include <cstdio>
#include <cstring>
#include <map>
#include <string>
#include <vector>
#include <algorithm>
#include <ctime>
#include "../../replay/ref.h"
typedef std::map<std::string, uint64_t> vf_inputs;
struct vf_rng {
    uint64_t s;
    uint64_t raw() { s ^= s << 13; s ^= s >> 7; s ^= s << 17; return s; }
    uint64_t next()
    {
        static const uint64_t E[] = {0, 1, 2, REF_P - 1, REF_P, REF_P + 1, 0xFFFFFFFFULL, 0x100000000ULL, 0xFFFFFFFF00000000ULL, 0xFFFFFFFFFFFFFFFFULL, 0x8000000000000000ULL,
                                     0x7FFFFFFFFFFFFFFFULL, REF_P - 2, 0xFFFFFFFEFFFFFFFFULL, 0x5555555555555555ULL, 0xFFFFFFFF00000002ULL};
        uint64_t r = raw();
        if ((r & 3) == 0) return E[(r >> 8) % (sizeof(E) / sizeof(E[0]))];
        if ((r & 3) == 1) return raw() | 0xFFFFFFFF00000000ULL;     // upper range: many non-canonical words
        return raw();
    }
    uint64_t repr(uint64_t canonical) { return (canonical < 0xFFFFFFFFULL && (raw() & 1)) ? canonical + REF_P : canonical; }   // either representation
};
// coefficient i of (a0 + a1 x + a2 x^2)(b0 + b1 x + b2 x^2) mod x^3 - x - 1 : school-book, x^3 = x + 1, x^4 = x^2 + x
static uint64_t ref_f3mul(int i, uint64_t a0, uint64_t a1, uint64_t a2, uint64_t b0, uint64_t b1, uint64_t b2)
{
    uint64_t c0 = ref_mul(a0, b0), c1 = ref_add(ref_mul(a0, b1), ref_mul(a1, b0)), c2 = ref_add(ref_add(ref_mul(a0, b2), ref_mul(a1, b1)), ref_mul(a2, b0));
    uint64_t c3 = ref_add(ref_mul(a1, b2), ref_mul(a2, b1)), c4 = ref_mul(a2, b2);
    if (i == 0) return ref_add(c0, c3);
    if (i == 1) return ref_add(ref_add(c1, c3), c4);
    return ref_add(c2, c4);
}
#define CHK(c, k, i) do { if (!(c)) { if (bad < 5) printf("%s shape %d: element %d coefficient %d differs from the scalar extension operation\n", U, shape, k, i); bad++; } } while (0)
#define FRAME(c, what, j) do { if (!(c)) { if (bad < 5) printf("%s shape %d: %s[%zu] changed although not designated\n", U, shape, what, (size_t)(j)); bad++; } } while (0)
#include "oracle_gen.inc"
int vf_replay(const std::string &u, vf_inputs &in)
{
    std::string uid = u.substr(0, u.find('@'));
    int shape = 1;
    size_t p = u.find("@shape");
    if (p != std::string::npos) shape = u[p + 6] - '0';
    for (vf_entry *e = TESTS; e->uid; e++)
        if (uid == e->uid) {
            vf_rng R{0x9E3779B97F4A7C15ULL};
            int bad = 0;
            time_t t0 = time(0);
            for (int it = 0; it < 20000 && !bad && (it < 200 || time(0) - t0 < 15); it++) bad += e->fn(shape, R);
            return bad ? 1 : 0;
        }
    return 3;
}
