// C08 native oracle: the verifier's counterexamples for the Merkle builders falsify an inductive step (no concrete run), so the
// oracle scans small shapes: every builder against a reference tree assembled from linear_hash_seq / hash_seq (covered by C07 / C06),
// on exact-size heap buffers under ASan.
#include <cstdint>
#include <cstdio>
#include <cstring>
#include <map>
#include <string>
#include <vector>
#include "poseidon_goldilocks.hpp"
#include "merklehash_goldilocks.hpp"
typedef std::map<std::string, uint64_t> vf_inputs;
typedef Goldilocks::Element E;
static void ref_tree(std::vector<E> &t, const E *in, uint64_t cols, uint64_t rows, uint64_t dim, uint64_t bs)
{
    t.assign(MerklehashGoldilocks::getTreeNumElements(rows), Goldilocks::zero());
    for (uint64_t i = 0; i < rows; i++) {
        if (bs == 0) PoseidonGoldilocks::linear_hash_seq(&t[4 * i], (E *)&in[i * cols * dim], cols * dim);
        else { uint64_t nb = cols ? (cols + bs - 1) / bs : 1; std::vector<E> d(4 * nb);
            for (uint64_t j = 0; j < nb; j++) { uint64_t nn = (j == nb - 1) ? cols - (nb - 1) * bs : bs; PoseidonGoldilocks::linear_hash_seq(&d[4 * j], (E *)&in[i * cols * dim + j * bs * dim], nn * dim); }
            PoseidonGoldilocks::linear_hash_seq(&t[4 * i], d.data(), 4 * nb); } }
    uint64_t base = 0, pend = rows;
    while (pend > 1) { for (uint64_t i = 0; i < pend / 2; i++) { E blk[12]; memset(blk, 0, sizeof blk); memcpy(blk, &t[base + 8 * i], 64); E out[12]; PoseidonGoldilocks::hash_full_result_seq(out, blk); memcpy(&t[base + 4 * (pend + i)], out, 32); }
        base += 4 * pend; pend /= 2; }
}
int vf_replay(const std::string &u0, vf_inputs &in)
{
    std::string u = u0.substr(u0.find(':') == std::string::npos ? 0 : u0.find(':') + 1);
    bool batch = u.find("batch") != std::string::npos;
    for (uint64_t rows = 1; rows <= 8; rows <<= 1) for (uint64_t cols = 0; cols <= 13; cols++) for (uint64_t dim = 1; dim <= 3; dim += 2) for (uint64_t bs = batch ? 1 : 0; bs <= (batch ? 5u : 0u); bs++) {
        uint64_t n = rows * cols * dim; E *inp = n ? new E[n] : (E *)malloc(0);
        for (uint64_t k = 0; k < n; k++) inp[k] = Goldilocks::fromU64(0x9E3779B97F4A7C15ULL * (k + 1));
        std::vector<E> want; ref_tree(want, inp, cols, rows, dim, bs);
        E *tree = new E[want.size()];
        if (u == "merkletree_seq") PoseidonGoldilocks::merkletree_seq(tree, inp, cols, rows, 2, dim);
        else if (u == "merkletree_avx") PoseidonGoldilocks::merkletree_avx(tree, inp, cols, rows, 2, dim);
        else if (u == "merkletree_batch_seq") PoseidonGoldilocks::merkletree_batch_seq(tree, inp, cols, rows, bs, 2, dim);
        else if (u == "merkletree_batch_avx") PoseidonGoldilocks::merkletree_batch_avx(tree, inp, cols, rows, bs, 2, dim);
#ifdef __AVX512__
        else if (u == "merkletree_avx512") PoseidonGoldilocks::merkletree_avx512(tree, inp, cols, rows, 2, dim);
#endif
        else return 3;
        for (size_t k = 0; k < want.size(); k++) if (Goldilocks::toU64(tree[k]) != Goldilocks::toU64(want[k])) {
            printf("%s rows=%llu cols=%llu dim=%llu batch=%llu: tree element %zu differs from the reference tree\n", u.c_str(), (unsigned long long)rows, (unsigned long long)cols, (unsigned long long)dim, (unsigned long long)bs, k); return 1; }
        delete[] tree; if (n) delete[] inp; else free(inp);
    }
    printf("%s: all scanned shapes (rows 1..8, cols 0..13, dim 1,3%s) equal the reference tree\n", u.c_str(), batch ? ", batch 1..5" : "");
    return 0;
}
