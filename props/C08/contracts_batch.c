/* C08 (batched builders): leaf = digest of the concatenated digests of consecutive column batches; the level part is as in contracts.c.
 * Route M2 (builders C-ified per run: src/gen_merkle.c) + loop contracts + GHOST MONITORS for the hashing callees.
 * The tree buffer and the input matrix are abstract zero-size objects; the tree's contents are the uninterpreted function
 * TREE(offset) (write-once memory: every node is written exactly once, at the watermark g_hi, and read only below it).
 *   leaf call  k : linear_hash*(tree + 4k, input + ROWOFF(k), ROWLEN)            -> node k        (digest of row k, C07)
 *   level call   : hash*(tree + g_hi, in)  with in[0..8) = TREE(2*g_hi - 8*rows + 0..8), in[8..12) = 0
 *                  i.e. the node at offset o hashes the two nodes at 2*o - 8*rows (closed form of "adjacent digest pairs")
 * After the call: all rows hashed, g_hi == getTreeNumElements(rows) = 4*(2*rows-1), so the root is the last four elements. */
#include "spec.h"
#define VF_SENTINEL __CPROVER_assert(0, "vf_sentinel: harness reaches the point after the call")
typedef unsigned long uint64_t;
typedef unsigned long size_t;
typedef struct { uint64_t fe; } GElement;
#define RATE 8
#define CAPACITY 4
#define SPONGE_WIDTH 12
#define HASH_SIZE 4
uint64_t vf_nondet_u64(void) { uint64_t x; return x; }
int omp_get_max_threads(void) { int n; __CPROVER_assume(n >= 1); return n; }

/* products of sizes are not given to the solver as multipliers: the row length and the row offsets are uninterpreted
 * functions (rules M2-mul rewrite `num_cols * dim` and `i * num_cols * dim` in the C-ified text); overflow of these products
 * for astronomically large shapes is therefore not examined */
uint64_t __CPROVER_uninterpreted_rowlen(uint64_t, uint64_t);
uint64_t __CPROVER_uninterpreted_rowoff(uint64_t, uint64_t, uint64_t);
uint64_t __CPROVER_uninterpreted_umul(uint64_t, uint64_t);
#define UMUL(a, b) __CPROVER_uninterpreted_umul(a, b)   /* rule M2-mul: every product of size variables, left-associated */
#define ROWLEN(c, d) UMUL(c, d)
uint64_t __CPROVER_uninterpreted_udiv(uint64_t, uint64_t);
static uint64_t vf_udiv(uint64_t x, uint64_t y)                       /* rule M2-div + AXIOM(c-division), as in props/C17/contracts_par.c */
{ __CPROVER_assert(y != 0, "division by zero"); uint64_t q = __CPROVER_uninterpreted_udiv(x, y); __CPROVER_assume(q <= x); __CPROVER_assume(x < y ? q == 0 : q >= 1); __CPROVER_assume(y != 1 || q == x); return q; }
#define ROWOFF(i, c, d) UMUL(UMUL(i, c), d)
uint64_t __CPROVER_uninterpreted_tree(uint64_t);
#define TREE(o) __CPROVER_uninterpreted_tree(o)

const GElement *g_tree, *g_input, *g_buf; uint64_t g_rows, g_cols, g_dim, g_hi, g_leaf, g_bs, g_nb, g_j; _Bool g_bad;
/* batched leaf: nb = ceil(cols / bs) inner calls (batch j: columns [j*bs, ..) of row i, length bs resp. the remainder) into a local buffer of
 * 4*nb elements, then one outer call hashing that buffer into leaf slot i */
static void leaf_monitor(GElement *out, const GElement *in, uint64_t size, int lanes)
{
  uint64_t i = g_leaf;
  if (lanes != 1 || i >= g_rows || g_hi != 4 * i) g_bad = 1;
  if (g_j < g_nb)
  { /* inner call j */
    uint64_t nn = g_bs; if (g_j == g_nb - 1) nn = g_cols - UMUL(g_nb - 1, g_bs);
    if (g_j == 0) { g_buf = out; if (__CPROVER_POINTER_OFFSET(out) != 0 || __CPROVER_same_object(out, g_tree)) g_bad = 1; }
    if (!__CPROVER_same_object(out, g_buf) || (uint64_t)__CPROVER_POINTER_OFFSET(out) != 32 * g_j) g_bad = 1;
    if (!__CPROVER_same_object(in, g_input) || (uint64_t)__CPROVER_POINTER_OFFSET(in) != 8 * (ROWOFF(i, g_cols, g_dim) + UMUL(UMUL(g_j, g_bs), g_dim))) g_bad = 1;
    if (size != UMUL(nn, g_dim)) g_bad = 1;
    g_j++;
  }
  else
  { /* outer call: digest of the nb digests */
    if (g_j != g_nb || in != g_buf || size != g_nb * CAPACITY) g_bad = 1;
    if (!__CPROVER_same_object(out, g_tree) || (uint64_t)__CPROVER_POINTER_OFFSET(out) != 32 * i) g_bad = 1;
    g_j = 0; g_leaf++; g_hi += 4;
  }
}
void PoseidonGoldilocks_linear_hash_seq(GElement *out, GElement *in, uint64_t size) { leaf_monitor(out, in, size, 1); }
void PoseidonGoldilocks_linear_hash(GElement *out, GElement *in, uint64_t size) { leaf_monitor(out, in, size, 1); }
static void node_monitor(GElement *out, const GElement *in)
{
  if (g_leaf != g_rows || g_hi < 4 * g_rows || g_hi + 4 > 8 * g_rows - 4) g_bad = 1;                  /* only after all leaves; inside the tree */
  if (!__CPROVER_same_object(out, g_tree) || (uint64_t)__CPROVER_POINTER_OFFSET(out) != 8 * g_hi) g_bad = 1;
  uint64_t c = 2 * g_hi - 8 * g_rows;
#define CHK(k) if (in[k].fe != TREE(c + (k))) g_bad = 1;
  CHK(0) CHK(1) CHK(2) CHK(3) CHK(4) CHK(5) CHK(6) CHK(7)
  if (in[8].fe != 0 || in[9].fe != 0 || in[10].fe != 0 || in[11].fe != 0) g_bad = 1;
  g_hi += 4;
}
void PoseidonGoldilocks_hash_seq(GElement *out, const GElement *in) { node_monitor(out, in); }
void PoseidonGoldilocks_hash(GElement *out, const GElement *in) { node_monitor(out, in); }
/* copies: zero fill of the local block, and reading eight elements of the tree below the watermark */
#define Z1(i) if (n / 8 > (i)) dd[i].fe = 0;
#define C1(i) if (n / 8 > (i)) { if (from_tree) { if (base + (i) >= g_hi) g_bad = 1; dd[i].fe = TREE(base + (i)); } else dd[i] = ss[i]; }
#define REP12(M) M(0) M(1) M(2) M(3) M(4) M(5) M(6) M(7) M(8) M(9) M(10) M(11)
static void vf_memset(GElement *dd, int c, size_t n) { __CPROVER_assert((n & 7) == 0 && n <= 96 && c == 0, "vf_memset: whole elements, zero fill, at most 12"); REP12(Z1) }
static void vf_memcpy(GElement *dd, const GElement *ss, size_t n)
{ __CPROVER_assert((n & 7) == 0 && n <= 96, "vf_memcpy: whole elements, at most 12");
  _Bool from_tree = n > 0 && __CPROVER_same_object(ss, g_tree); uint64_t base = 0;
  if (from_tree) { __CPROVER_assert((__CPROVER_POINTER_OFFSET(ss) & 7) == 0, "element-aligned source"); base = (uint64_t)__CPROVER_POINTER_OFFSET(ss) / 8; }
  REP12(C1) }

#define LOOP_LEAF(step) \
  __CPROVER_assigns(i, g_leaf, g_hi, g_bad, g_j, g_buf) \
  __CPROVER_loop_invariant(!g_bad && g_leaf == i && g_hi == 4 * i && i <= num_rows && g_j == 0 && nbatches == g_nb && g_nb >= 1) \
  __CPROVER_decreases(num_rows - i)
#define LOOP_BATCH \
  __CPROVER_assigns(j, g_j, g_bad, g_buf) \
  __CPROVER_loop_invariant(!g_bad && j <= nbatches && g_j == j && (j == 0 || __CPROVER_same_object(g_buf, buff0)) && (j == 0 || __CPROVER_POINTER_OFFSET(g_buf) == 0)) \
  __CPROVER_decreases(nbatches - j)
#define LOOP_LEVELS \
  __CPROVER_assigns(pending, nextN, nextIndex, g_hi, g_bad) \
  __CPROVER_loop_invariant(!g_bad && g_leaf == num_rows && pending >= 1 && pending <= num_rows && (pending & (pending - 1)) == 0) \
  __CPROVER_loop_invariant(nextIndex == 8 * (num_rows - pending) && g_hi == nextIndex + 4 * pending && (pending < 2 || nextN == pending / 2)) \
  __CPROVER_decreases(pending)
#define LOOP_NODES \
  __CPROVER_assigns(i, g_hi, g_bad) \
  __CPROVER_loop_invariant(!g_bad && i <= nextN && g_hi == nextIndex + 4 * (pending + i)) \
  __CPROVER_decreases(nextN - i)
#include "gen_merkle_batch.c"

#define HARNESS(fn) void hl_##fn(void) { \
  uint64_t num_rows, num_cols, dim, batch_size; int nThreads; \
  __CPROVER_assume(num_rows >= 1 && num_rows <= (1UL << 32) && (num_rows & (num_rows - 1)) == 0 && nThreads >= 0 && batch_size >= 1 && batch_size <= (1UL << 32) && num_cols <= (1UL << 32)); \
  uint64_t vf_inrows = num_rows; (void)vf_inrows; \
  GElement *tree = (GElement *)__CPROVER_allocate(0, 0), *input = (GElement *)__CPROVER_allocate(0, 0); \
  g_tree = tree; g_input = input; g_rows = num_rows; g_cols = num_cols; g_dim = dim; g_hi = 0; g_leaf = 0; g_bad = 0; g_bs = batch_size; g_j = 0; g_buf = 0; \
  g_nb = 1; if (num_cols > 0) g_nb = vf_udiv(num_cols + batch_size - 1, batch_size); \
  fn(tree, input, num_cols, num_rows, batch_size, nThreads, dim); \
  __CPROVER_assert(!g_bad, #fn ".postcondition.1 (light): per row: one digest per column batch (consecutive batches, the last one shorter) into a local buffer, then the digest of that buffer into the leaf slot; nodes as in the plain builders"); \
  __CPROVER_assert(g_leaf == num_rows, #fn ".postcondition.2 (light): every row is hashed exactly once"); \
  __CPROVER_assert(g_hi == num_rows * HASH_SIZE + (num_rows - 1) * HASH_SIZE, #fn ".postcondition.3 (light): the buffer is filled exactly up to getTreeNumElements(num_rows)"); \
  VF_SENTINEL; }
HARNESS(PoseidonGoldilocks_merkletree_batch_seq)
HARNESS(PoseidonGoldilocks_merkletree_batch_avx)
