"""C08 - Merkle tree buffer and root are the binary Poseidon tree over row digests."""
import os, sys, re
sys.path.insert(0, os.path.dirname(os.path.dirname(os.path.dirname(os.path.abspath(__file__)))))
from vf.driver import Group, Unit
from vf import extract, cify

PROPERTY = 'C08'
LEVEL = 'proof'
P = 'poseidon_goldilocks.cpp'
REN = [('linear_hash_seq', 'PoseidonGoldilocks_linear_hash_seq'), ('linear_hash_avx512', 'PoseidonGoldilocks_linear_hash_avx512'), ('linear_hash', 'PoseidonGoldilocks_linear_hash'),
       ('hash_seq', 'PoseidonGoldilocks_hash_seq'), ('hash', 'PoseidonGoldilocks_hash'), ('merkletree_avx', 'PoseidonGoldilocks_merkletree_avx')]
RULES = [(r'floor\(\((\w+) - 1\) / 2\)', r'((\1 - 1) / 2) /* M2-floor: floor of an integer-valued double below 2^53 is the integer */')]
SIZEVARS = ['i', 'j', 'num_cols', 'dim', 'batch_size', 'nn', 'nbatches', 'num_rows', 'nlastb']
def gen(f, name, step):
    txt = cify.cify(f, P, 'PoseidonGoldilocks::' + name, 'PoseidonGoldilocks_' + name, REN, {0: 'LOOP_LEAF(%d)' % step, 1: 'LOOP_LEVELS', 2: 'LOOP_NODES'}, extra_rules=RULES)
    txt, n = cify.umul_rewrite(txt, SIZEVARS)
    if n < 2 or 'M2-floor' not in txt:
        raise extract.ExtractError('M2: %s: expected at least two size products and the floor rewrite (found %d products)' % (name, n))
    f.note('M2-mul', P, n, 0, 0, '%s: %d product chains of size variables -> UMUL' % (name, n))
    return txt
def filt(repo_src, dst):
    f = extract.Filter(repo_src, dst)
    f.check_macros()
    txt = gen(f, 'merkletree_seq', 1) + gen(f, 'merkletree_avx', 1) + gen(f, 'merkletree_avx512', 2)
    d = f.get_function('merklehash_goldilocks.hpp', 'getTreeNumElements', in_class=True)
    txt += 'uint64_t MerklehashGoldilocks_getTreeNumElements(uint64_t degree)\n' + d['body'] + '\n'
    f.note('M2-cify', 'merklehash_goldilocks.hpp', 1, 0, 0, 'MerklehashGoldilocks::getTreeNumElements')
    f.files = {'gen_merkle.c': txt}
    return f
BRULES = [(r'\(num_cols \+ batch_size - 1\) / batch_size', 'vf_udiv(num_cols + batch_size - 1, batch_size)')] + RULES
def genb(f, name):
    txt = cify.cify(f, P, 'PoseidonGoldilocks::' + name, 'PoseidonGoldilocks_' + name, REN, {0: 'LOOP_LEAF(1)', 1: 'LOOP_BATCH', 2: 'LOOP_LEVELS', 3: 'LOOP_NODES'}, extra_rules=BRULES)
    txt, n = cify.umul_rewrite(txt, SIZEVARS)
    if n < 4 or 'vf_udiv(' not in txt or 'M2-floor' not in txt:
        raise extract.ExtractError('M2: %s: expected the batch division, the floor rewrite and at least four size products (found %d products)' % (name, n))
    f.note('M2-mul', P, n, 0, 0, '%s: %d product chains of size variables -> UMUL' % (name, n))
    return txt
def filt_batch(repo_src, dst):
    f = extract.Filter(repo_src, dst)
    f.check_macros()
    f.files = {'gen_merkle_batch.c': genb(f, 'merkletree_batch_seq') + genb(f, 'merkletree_batch_avx')}
    return f
GROUPS = {'m2b': Group('m2b', filt_batch, c=['props/C08/contracts_batch.c'], repo_cpp=[]), 'm2': Group('m2', filt, c=['props/C08/contracts.c'], defines=['VF_AVX512'], repo_cpp=[])}
CHK = ['--bounds-check', '--pointer-check', '--undefined-shift-check', '--signed-overflow-check', '--div-by-zero-check']
UNITS = []
for n in ('merkletree_seq', 'merkletree_avx', 'merkletree_avx512'):
    UNITS.append(Unit(n, 'm2', 'PoseidonGoldilocks_' + n, harness='hl_PoseidonGoldilocks_' + n, light=True, loops='contract', checks=CHK, timeout=900,
                      functions=['PoseidonGoldilocks::%s (src/%s) [C-ified, three loop contracts, ghost monitors for linear_hash / hash]' % (n, P)]))
for n in ('merkletree_batch_seq', 'merkletree_batch_avx'):
    UNITS.append(Unit(n, 'm2b', 'PoseidonGoldilocks_' + n, harness='hl_PoseidonGoldilocks_' + n, light=True, loops='contract', checks=CHK, timeout=900,
                      functions=['PoseidonGoldilocks::%s (src/%s) [C-ified, four loop contracts, ghost monitors; batch division axiomatised]' % (n, P)]))
UNITS.append(Unit('getTreeNumElements', 'm2', 'MerklehashGoldilocks_getTreeNumElements', harness='hl_getTreeNumElements', light=True, checks=CHK,
                  functions=['MerklehashGoldilocks::getTreeNumElements (src/merklehash_goldilocks.hpp)']))
TRUSTED_BASE = ['M2 C-ification rules incl. M2-mul (size products uninterpreted) and M2-floor (floor of an integer-valued double)', 'row digest and node hash are abstracted by ghost monitors (C07 / C06 cover them); the tree is write-once memory TREE(offset)',
                'CBMC loop-contract instrumentation, cadical', 'OpenMP pragmas have sequential meaning (C12)']
ASSUMPTIONS = ['num_rows a power of two, 1 <= num_rows <= 2^32', 'size products num_cols*dim, i*num_cols*dim do not overflow (not examined)']
EXPLANATION = 'All heights, column counts and dimensions: the three loops of each builder are closed by inductive invariants over the monitor state.'
MANIFEST_ENTRY = dict(category='proof', technique='CBMC loop contracts on the C-ified builders + ghost monitors of the hashing callees + write-once abstract tree memory',
    text='merkletree_seq / _avx / _avx512 and the batched builders merkletree_batch_seq / _batch_avx (leaf = digest of the digests of consecutive column batches, any batch size): every row digest lands in its leaf slot, every node is the hash of its two adjacent children with zero capacity (closed form 2*o - 8*rows), the buffer ends exactly at getTreeNumElements(rows); for every power-of-two row count up to 2^32 and all column counts / dims.',
    note='merkletree_batch_avx512 is not under contract (listed in evidence); size products and the batch division are uninterpreted / axiomatised; thread-count independence: C12.')
# the row digest this chain stands on: linear_hash* under contract in C07 (run here too)
from vf.driver import import_units
_g, _u = import_units('C07', lambda n: n in ('linear_hash_seq', 'linear_hash'))
GROUPS.update(_g); UNITS += _u
NATIVE_FLAGS = ['-mavx2', '-mavx512f', '-D__AVX512__']
NATIVE_SOURCES = []
ORACLE_SCANS = True
