// C02 wrappers: extern "C" marshalling into the real AVX2 kernels of goldilocks_base_field_avx.hpp.
// A 4-lane register is passed as uint64_t[4] (lane i = element i); nothing here computes.
#include "goldilocks_base_field.hpp"
#include "vf_wrap.h"
#define LD(p) _mm256_loadu_si256((const __m256i *)(p))
#define ST(p, v) _mm256_storeu_si256((__m256i *)(p), (v))

#define K_UN(name) extern "C" void k_##name(uint64_t *c, const uint64_t *a) \
  { VF_IN4(a, a); __m256i va = LD(a), vc; Goldilocks::name(vc, va); ST(c, vc); }
#define K_BIN(name) extern "C" void k_##name(uint64_t *c, const uint64_t *a, const uint64_t *b) \
  { VF_IN4(a, a); VF_IN4(b, b); __m256i va = LD(a), vb = LD(b), vc; Goldilocks::name(vc, va, vb); ST(c, vc); }
#define K_BIN2(name) extern "C" void k_##name(uint64_t *ch, uint64_t *cl, const uint64_t *a, const uint64_t *b) \
  { VF_IN4(a, a); VF_IN4(b, b); __m256i va = LD(a), vb = LD(b), vh, vl; Goldilocks::name(vh, vl, va, vb); ST(ch, vh); ST(cl, vl); }

K_UN(shift_avx)
K_UN(toCanonical_avx)
K_UN(toCanonical_avx_s)
K_BIN(add_avx)
K_BIN(add_avx_a_sc)
K_BIN(add_avx_s_b_small)
K_BIN(add_avx_b_small)
K_BIN(sub_avx)
K_BIN(sub_avx_s_b_small)
K_BIN(mult_avx)
K_BIN(mult_avx_8)
K_BIN2(mult_avx_128)
K_BIN2(mult_avx_72)
K_BIN(reduce_avx_128_64)   // (c, c_h, c_l)
K_BIN(reduce_avx_96_64)
extern "C" void k_square_avx(uint64_t *c, uint64_t *a) { VF_IN4(a, a); __m256i va = LD(a), vc; Goldilocks::square_avx(vc, va); ST(c, vc); ST(a, va); }
extern "C" void k_square_avx_128(uint64_t *ch, uint64_t *cl, const uint64_t *a)
  { VF_IN4(a, a); __m256i va = LD(a), vh, vl; Goldilocks::square_avx_128(vh, vl, va); ST(ch, vh); ST(cl, vl); }
// aliasing: the result register is one of the operand registers (c==a, c==b)
extern "C" void k_add_avx_ca(uint64_t *ca, const uint64_t *b) { VF_IN4(a, ca); VF_IN4(b, b); __m256i va = LD(ca), vb = LD(b); Goldilocks::add_avx(va, va, vb); ST(ca, va); }
extern "C" void k_sub_avx_cb(uint64_t *cb, const uint64_t *a) { VF_IN4(a, a); VF_IN4(b, cb); __m256i va = LD(a), vb = LD(cb); Goldilocks::sub_avx(vb, va, vb); ST(cb, vb); }
extern "C" void k_mult_avx_cab(uint64_t *cab) { VF_IN4(a, cab); VF_IN4(b, cab); __m256i va = LD(cab); Goldilocks::mult_avx(va, va, va); ST(cab, va); }
// loads / stores / set
extern "C" void k_load_avx(uint64_t *c, const uint64_t *mem) { VF_IN4(a, mem); __m256i v; Goldilocks::load_avx(v, (const Goldilocks::Element *)mem); ST(c, v); }
extern "C" void k_load_avx_a(uint64_t *c, const uint64_t *mem) { VF_IN4(a, mem); __m256i v; Goldilocks::load_avx_a(v, (const Goldilocks::Element *)mem); ST(c, v); }
extern "C" void k_store_avx(uint64_t *mem, const uint64_t *a) { VF_IN4(a, a); __m256i v = LD(a); Goldilocks::store_avx((Goldilocks::Element *)mem, v); }
extern "C" void k_store_avx_a(uint64_t *mem, const uint64_t *a) { VF_IN4(a, a); __m256i v = LD(a); Goldilocks::store_avx_a((Goldilocks::Element *)mem, v); }
extern "C" void k_set_avx(uint64_t *c, uint64_t a0, uint64_t a1, uint64_t a2, uint64_t a3)
  { VF_IN(a0, a0); VF_IN(a1, a1); VF_IN(a2, a2); VF_IN(a3, a3); Goldilocks::Element e0 = {a0}, e1 = {a1}, e2 = {a2}, e3 = {a3}; __m256i v; Goldilocks::set_avx(v, e0, e1, e2, e3); ST(c, v); }
