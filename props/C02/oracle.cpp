// C02 native oracle: runs the real AVX2 kernels (through the proof's wrappers, on the AVX2 hardware) and checks every lane
// with independent __int128 reference arithmetic.
#include <cstdint>
#include <cstdio>
#include <map>
#include <string>
#include "../../replay/ref.h"
typedef std::map<std::string, uint64_t> vf_inputs;
extern "C" {
#define D_UN(n) void k_##n(uint64_t *, const uint64_t *);
#define D_BIN(n) void k_##n(uint64_t *, const uint64_t *, const uint64_t *);
#define D_BIN2(n) void k_##n(uint64_t *, uint64_t *, const uint64_t *, const uint64_t *);
D_UN(shift_avx) D_UN(toCanonical_avx) D_UN(toCanonical_avx_s) D_BIN(add_avx) D_BIN(add_avx_a_sc) D_BIN(add_avx_s_b_small) D_BIN(add_avx_b_small)
D_BIN(sub_avx) D_BIN(sub_avx_s_b_small) D_BIN(mult_avx) D_BIN(mult_avx_8) D_BIN2(mult_avx_128) D_BIN2(mult_avx_72) D_BIN(reduce_avx_128_64) D_BIN(reduce_avx_96_64)
void k_square_avx(uint64_t *, uint64_t *); void k_square_avx_128(uint64_t *, uint64_t *, const uint64_t *);
void k_add_avx_ca(uint64_t *, const uint64_t *); void k_sub_avx_cb(uint64_t *, const uint64_t *); void k_mult_avx_cab(uint64_t *);
D_UN(load_avx) D_UN(load_avx_a) D_UN(store_avx) D_UN(store_avx_a) void k_set_avx(uint64_t *, uint64_t, uint64_t, uint64_t, uint64_t);
}
static const uint64_t MSB = 0x8000000000000000ULL;
static int bad = 0;
static void lane(const char *u, int i, bool ok, uint64_t a, uint64_t b, uint64_t got, uint64_t got2 = 0)
{
    if (!ok) { bad = 1; printf("%s lane %d: a=%llu b=%llu real code returned %llu (%llu): postcondition violated\n", u, i, (unsigned long long)a, (unsigned long long)b, (unsigned long long)got, (unsigned long long)got2); }
}
int vf_replay(const std::string &u, vf_inputs &in)
{
    alignas(32) uint64_t a[4], b[4], c[4] = {0, 0, 0, 0}, d[4] = {0, 0, 0, 0};
    for (int i = 0; i < 4; i++) { a[i] = in["a" + std::to_string(i)]; b[i] = in["b" + std::to_string(i)]; }
    std::string n = u.substr(0, u.find('@'));
    const char *s = n.c_str();
#define EACH for (int i = 0; i < 4; i++)
    if (n == "k_shift_avx") { k_shift_avx(c, a); EACH lane(s, i, c[i] == (a[i] ^ MSB), a[i], 0, c[i]); }
    else if (n == "k_toCanonical_avx") { k_toCanonical_avx(c, a); EACH lane(s, i, c[i] == a[i] % REF_P, a[i], 0, c[i]); }
    else if (n == "k_toCanonical_avx_s") { k_toCanonical_avx_s(c, a); EACH lane(s, i, (c[i] ^ MSB) == (a[i] ^ MSB) % REF_P, a[i], 0, c[i]); }
    else if (n == "k_add_avx") { k_add_avx(c, a, b); EACH lane(s, i, c[i] % REF_P == ref_add(a[i], b[i]), a[i], b[i], c[i]); }
    else if (n == "k_add_avx_a_sc") { k_add_avx_a_sc(c, a, b); EACH lane(s, i, c[i] % REF_P == ref_add(a[i] ^ MSB, b[i]), a[i], b[i], c[i]); }
    else if (n == "k_add_avx_s_b_small") { k_add_avx_s_b_small(c, a, b); EACH lane(s, i, (c[i] ^ MSB) % REF_P == ref_add(a[i] ^ MSB, b[i]), a[i], b[i], c[i]); }
    else if (n == "k_add_avx_b_small") { k_add_avx_b_small(c, a, b); EACH lane(s, i, c[i] % REF_P == ref_add(a[i], b[i]), a[i], b[i], c[i]); }
    else if (n == "k_sub_avx") { k_sub_avx(c, a, b); EACH lane(s, i, c[i] % REF_P == ref_sub(a[i], b[i]), a[i], b[i], c[i]); }
    else if (n == "k_sub_avx_s_b_small") { k_sub_avx_s_b_small(c, a, b); EACH lane(s, i, (c[i] ^ MSB) % REF_P == ref_sub(a[i] ^ MSB, b[i]), a[i], b[i], c[i]); }
    else if (n == "k_mult_avx") { k_mult_avx(c, a, b); EACH lane(s, i, c[i] % REF_P == ref_mul(a[i], b[i]), a[i], b[i], c[i]); }
    else if (n == "k_mult_avx_8") { k_mult_avx_8(c, a, b); EACH lane(s, i, c[i] % REF_P == ref_mul(a[i], b[i]), a[i], b[i], c[i]); }
    else if (n == "k_mult_avx_128") { k_mult_avx_128(c, d, a, b); EACH lane(s, i, (((ref_u128)c[i] << 64) | d[i]) == (ref_u128)a[i] * b[i], a[i], b[i], c[i], d[i]); }
    else if (n == "k_mult_avx_72") { k_mult_avx_72(c, d, a, b); EACH lane(s, i, (((ref_u128)c[i] << 64) | d[i]) == (ref_u128)a[i] * b[i], a[i], b[i], c[i], d[i]); }
    else if (n == "k_square_avx_128") { k_square_avx_128(c, d, a); EACH lane(s, i, (((ref_u128)c[i] << 64) | d[i]) == (ref_u128)a[i] * a[i], a[i], a[i], c[i], d[i]); }
    else if (n == "k_square_avx") { uint64_t a0[4] = {a[0], a[1], a[2], a[3]}; k_square_avx(c, a); EACH lane(s, i, c[i] % REF_P == ref_mul(a0[i], a0[i]) && a[i] == a0[i], a0[i], a0[i], c[i]); }
    else if (n == "k_reduce_avx_128_64" || n == "k_reduce_avx_96_64") {
        if (n == "k_reduce_avx_128_64") k_reduce_avx_128_64(c, a, b); else k_reduce_avx_96_64(c, a, b);
        EACH lane(s, i, c[i] % REF_P == (uint64_t)((((ref_u128)a[i] << 64) | b[i]) % REF_P), a[i], b[i], c[i]); }
    else if (n == "k_add_avx_ca") { uint64_t a0[4] = {a[0], a[1], a[2], a[3]}; k_add_avx_ca(a, b); EACH lane(s, i, a[i] % REF_P == ref_add(a0[i], b[i]), a0[i], b[i], a[i]); }
    else if (n == "k_sub_avx_cb") { uint64_t b0[4] = {b[0], b[1], b[2], b[3]}; k_sub_avx_cb(b, a); EACH lane(s, i, b[i] % REF_P == ref_sub(a[i], b0[i]), a[i], b0[i], b[i]); }
    else if (n == "k_mult_avx_cab") { uint64_t a0[4] = {a[0], a[1], a[2], a[3]}; k_mult_avx_cab(a); EACH lane(s, i, a[i] % REF_P == ref_mul(a0[i], a0[i]), a0[i], a0[i], a[i]); }
    else if (n == "k_load_avx") { k_load_avx(c, a); EACH lane(s, i, c[i] == a[i], a[i], 0, c[i]); }
    else if (n == "k_load_avx_a") { k_load_avx_a(c, a); EACH lane(s, i, c[i] == a[i], a[i], 0, c[i]); }
    else if (n == "k_store_avx") { k_store_avx(c, a); EACH lane(s, i, c[i] == a[i], a[i], 0, c[i]); }
    else if (n == "k_store_avx_a") { k_store_avx_a(c, a); EACH lane(s, i, c[i] == a[i], a[i], 0, c[i]); }
    else if (n == "k_set_avx") { k_set_avx(c, a[0], a[1], a[2], a[3]); EACH lane(s, i, c[i] == a[i], a[i], 0, c[i]); }
    else return 3;
    if (!bad) printf("%s: all four lanes satisfy the postcondition natively\n", s);
    return bad;
}
