"""C02 - AVX2 lane kernels equal the scalar field op in every lane, every input."""
import os, sys
sys.path.insert(0, os.path.dirname(os.path.dirname(os.path.dirname(os.path.abspath(__file__)))))
from vf.driver import Group, Unit
from vf import extract

PROPERTY = 'C02'
LEVEL = 'proof'
GROUPS = {
    'exact': Group('exact', extract.base_filter, cpp=['props/C02/wrappers.cpp'], c=['props/C02/contracts.c']),
    'abs32': Group('abs32', extract.base_filter, cpp=['props/C02/wrappers.cpp'], c=['props/C02/contracts.c'], defines=['VF_MUL32_ABSTRACT']),
}
for lane in range(4):
    GROUPS['abs32_l%d' % lane] = Group('abs32_l%d' % lane, extract.base_filter, cpp=['props/C02/wrappers.cpp'], c=['props/C02/contracts.c'],
                                        defines=['VF_MUL32_ABSTRACT', 'VF_MUL32_PURE', 'VF_LANE=%d' % lane])
def filt_mult(repo_src, dst):
    f = extract.base_filter(repo_src, dst)
    f.drop_function('goldilocks_base_field_avx.hpp', 'Goldilocks::mult_avx_128', expect=1, rule='E-callee')
    f.drop_function('goldilocks_base_field_avx.hpp', 'Goldilocks::reduce_avx_128_64', expect=1, rule='E-callee')
    f.drop_function('goldilocks_base_field_avx.hpp', 'Goldilocks::square_avx_128', expect=1, rule='E-callee')
    return f
GROUPS['mod'] = Group('mod', filt_mult, cpp=['props/C02/wrappers.cpp', 'props/C02/forwarders.cpp'], c=['props/C02/contracts.c'],
                      defines=['VF_MUL32_ABSTRACT', 'VF_MODULAR'], cxx_defines=['FWD_MULT_AVX_128', 'FWD_REDUCE_AVX_128_64', 'FWD_SQUARE_128'])
A = 'src/goldilocks_base_field_avx.hpp'
UNITS = []
def U(name, group='exact', desc=None, **kw):
    if group == 'modlanes':
        UNITS.append(Unit('k_%s' % name, 'mod', 'k_' + name, replace=['k_mult_avx_128', 'k_reduce_avx_128_64', 'k_square_avx_128'],
                          functions=['Goldilocks::%s over the contracts of mult/square_avx_128 and reduce_avx_128_64 (%s)' % (desc or name, A)], **kw))
        return
    if group == 'lanes':
        for lane in range(4):
            UNITS.append(Unit('k_%s@lane%d' % (name, lane), 'abs32_l%d' % lane, 'k_' + name, functions=['Goldilocks::%s [lane %d] (%s)' % (desc or name, lane, A)], **kw))
        return
    UNITS.append(Unit('k_' + name, group, 'k_' + name, functions=['Goldilocks::%s (%s)' % (desc or name, A)], **kw))
for n in ('shift_avx', 'toCanonical_avx', 'toCanonical_avx_s', 'add_avx', 'add_avx_a_sc', 'add_avx_s_b_small', 'add_avx_b_small',
          'sub_avx', 'sub_avx_s_b_small',
          'load_avx', 'load_avx_a', 'store_avx', 'store_avx_a', 'set_avx'):
    U(n)
U('add_avx_ca', desc='add_avx [c==a]')
U('sub_avx_cb', desc='sub_avx [c==b]')
for n in ('reduce_avx_128_64', 'reduce_avx_96_64', 'mult_avx_72', 'mult_avx_8'):
    U(n, 'abs32')
for n in ('mult_avx_128', 'square_avx_128'):
    U(n, 'lanes')
U('square_avx', 'modlanes')
U('mult_avx', 'modlanes')
U('mult_avx_cab', 'modlanes', desc='mult_avx [c==a==b]')

TRUSTED_BASE = [
    'L0 intrinsic semantics table stubs/vf_intrin.h (26 AVX2 intrinsics, 1-6 line C bodies from the Intel pseudo code); guarded natively against the hardware by tools/intrin_guard, not proved',
    'alignment requirement of _mm256_load_si256/_mm256_store_si256 not modelled (alignas dropped)',
    'the 32x32->64 product of _mm256_mul_epu32 is an uninterpreted commutative function with range <= (2^32-1)^2 in the 128-bit recombination units (exact for the constant factor 2^32-1); lemma schoolbook (Lean) identifies the recombination with a*b',
    'mathematical step: r == T(hi,lo) + k*p, k in {1,0,-1,-2}  and  hi*2^64+lo == T + p*m (C01 lemma_reduce_congruence) ==> canon(r) == hi:lo mod p',
    'CBMC 6.11.0 C++ front end, goto-instrument dfcc, cadical; extraction rules under coverage.extraction',
]
ASSUMPTIONS = ['documented operand assumptions are the preconditions: a_sc shifted canonical; b_small <= 0xFFFFFFFF00000000; b_8 < 2^8; c_h < 2^32 for reduce_avx_96_64']
EXPLANATION = ('One unit per kernel; each enforces, for all four lanes and fully symbolic register contents, the same spec term as the '
               'scalar contract of C01 (canon(out) == addmod/submod(...) or the linear product witness), so "same field element as the scalar op" '
               'is the identity of the two postconditions.')
MANIFEST_ENTRY = dict(
    category='proof',
    technique='CBMC code contracts (dfcc) on the real AVX2 kernels compiled against a C semantics table of the intrinsics',
    text='23 units, one per 4-lane kernel (canonicalise, add/sub variants, 128/72-bit products, both reductions, mult, mult_8, square, loads/stores, register aliasing), each proved for all four lanes over all register contents under the documented operand assumption; no bound.',
    note='Trusted: intrinsic semantics table (guarded natively on the AVX2 hardware), 32x32 product abstracted as an uninterpreted function in the recombination units, alignment not modelled, CBMC/cadical.')
NATIVE_FLAGS = ['-mavx2']
NATIVE_SOURCES = ['props/C02/wrappers.cpp']

LEMMAS = ['schoolbook', 'schoolbook_sq', 'reduce_congruence']
def extra_checks(rn, tier, ginfos):
    from vf import lean
    import os, json
    r = lean.check_lemmas(LEMMAS)
    if r.get('lean_failed'):
        path = os.path.join(os.environ.get('VF_REPLAY_DIR', os.path.join(os.path.dirname(os.path.dirname(os.path.dirname(os.path.abspath(__file__)))), 'replay', 'out')), PROPERTY)
        os.makedirs(path, exist_ok=True)
        f = os.path.join(path, 'lean-lemmas.json')
        json.dump(dict(property=PROPERTY, obligation='Lean lemmas ' + ', '.join(LEMMAS), verifier_output=r.get('lean_output', '')), open(f, 'w'), indent=1)
        r['violations'] = ['VIOLATION property=%s replay=%s [Lean lemma no longer accepted] no-failing-input-found' % (PROPERTY, f)]
    return r
