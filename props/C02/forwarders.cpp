// E-callee forwarders (modular units): the definitions of these kernels are dropped from the filtered header by rule
// E-callee and re-defined here as pure marshalling into the *same* extern "C" symbols whose contracts are enforced
// against the real bodies in their own units; in the caller's unit those symbols are --replace-call-with-contract.
#include "goldilocks_base_field.hpp"
extern "C" void k_mult_avx_128(uint64_t *ch, uint64_t *cl, const uint64_t *a, const uint64_t *b);
extern "C" void k_reduce_avx_128_64(uint64_t *c, const uint64_t *ch, const uint64_t *cl);
#define CP4(d, s) do { (d)[0] = (s)[0]; (d)[1] = (s)[1]; (d)[2] = (s)[2]; (d)[3] = (s)[3]; } while (0)
#ifdef FWD_MULT_AVX_128
void Goldilocks::mult_avx_128(__m256i &c_h, __m256i &c_l, const __m256i &a, const __m256i &b)
{ uint64_t th[4], tl[4], ta[4], tb[4]; CP4(ta, a.v); CP4(tb, b.v); k_mult_avx_128(th, tl, ta, tb); CP4(c_h.v, th); CP4(c_l.v, tl); }
#endif
#ifdef FWD_REDUCE_AVX_128_64
void Goldilocks::reduce_avx_128_64(__m256i &c, const __m256i &c_h, const __m256i &c_l)
{ uint64_t tc[4], th[4], tl[4]; CP4(th, c_h.v); CP4(tl, c_l.v); k_reduce_avx_128_64(tc, th, tl); CP4(c.v, tc); }
#endif
extern "C" void k_square_avx_128(uint64_t *ch, uint64_t *cl, const uint64_t *a);
#ifdef FWD_SQUARE_128
void Goldilocks::square_avx_128(__m256i &c_h, __m256i &c_l, const __m256i &a)
{ uint64_t th[4], tl[4], ta[4]; CP4(ta, a.v); k_square_avx_128(th, tl, ta); CP4(c_h.v, th); CP4(c_l.v, tl); }
#endif
