// E-callee forwarders for C09: the scalar add / sub / mul / inv (and, for mulScalar, fromString) are replaced by their
// contracts.  Value-based extern "C" symbols (no pointers): keeps the number of addressed objects in a caller unit small.
#include "goldilocks_base_field.hpp"
typedef Goldilocks::Element E;
extern "C" {
uint64_t w_mul_v(uint64_t a, uint64_t b);
uint64_t w_add_v(uint64_t a, uint64_t b);
uint64_t w_sub_v(uint64_t a, uint64_t b);
uint64_t w_inv_v(uint64_t a);
uint64_t c_fromString_v(int neg, uint64_t hi, uint64_t lo, int radix);
extern int vf_parsed_neg; extern uint64_t vf_parsed_hi, vf_parsed_lo;
}
void Goldilocks::mul(Element &result, const Element &in1, const Element &in2) { result.fe = w_mul_v(in1.fe, in2.fe); }
void Goldilocks::add(Element &result, const Element &in1, const Element &in2) { result.fe = w_add_v(in1.fe, in2.fe); }
void Goldilocks::sub(Element &result, const Element &in1, const Element &in2) { result.fe = w_sub_v(in1.fe, in2.fe); }
void Goldilocks::inv(Element &result, const Element &in1) { result.fe = w_inv_v(in1.fe); }
#ifdef FWD_FROMSTRING
Goldilocks::Element Goldilocks::fromString(const std::string &in1, int radix)
{ Element r; r.fe = c_fromString_v(vf_parsed_neg, vf_parsed_hi, vf_parsed_lo, radix); return r; }
#endif
