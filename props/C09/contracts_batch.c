/* C09 - Goldilocks3::batchInverse for every array length >= 1 (route M2, src/gen_batchinv.c): loop contracts + ghost monitor.
 * Extension elements are opaque here: the monitor checks WHICH locations every mul / inv / copy reads and writes, call by call:
 *   tmp[0] <- src[0];  tmp[i] <- tmp[i-1] * src[i] (i = 1..n-1);  z <- inv(tmp[n-1]);
 *   for i = n-1 .. 1:  aux[i] <- z * tmp[i-1];  z <- z * src[i];      aux[0] <- z;   res[0..n) <- aux[0..n)
 * and that nothing is written into the source array (res may be the same array as src) before the final copy.
 * Lemma batch_inverse (Lean): with these equations aux[i] = src[i]^-1 whenever the product of all src[i] is invertible.
 * The element operations themselves (mul, inv, copy) are under contract in the other C09 units. */
#include "spec.h"
#define VF_SENTINEL __CPROVER_assert(0, "vf_sentinel: harness reaches the point after the call")
typedef unsigned long uint64_t; typedef unsigned long size_t;
typedef struct { uint64_t fe; } GElement;
typedef GElement G3Element[3];
#define OFF(p) ((uint64_t)__CPROVER_POINTER_OFFSET(p))
#define SAME(p, q) __CPROVER_same_object(p, q)
const GElement *g_src, *g_res, *g_tmp, *g_aux, *g_z; uint64_t g_n, g_f, g_b, g_sub; _Bool g_bad; unsigned g_phase;   /* 0 start, 1 forward, 2 inverted, 3 backward done, 4 copied */
static _Bool in_src_or_res(const GElement *p) { return SAME(p, g_src) || SAME(p, g_res); }
void Goldilocks3_copy(GElement *dst, const GElement *src)
{
  if (g_phase == 0) { if (!SAME(src, g_src) || OFF(src) != 0 || in_src_or_res(dst) || OFF(dst) != 0) g_bad = 1; g_tmp = dst; g_f = 1; g_phase = 1; }
  else if (g_phase == 2 && g_b == 0)
  { if (g_n == 1) { g_aux = dst; if (in_src_or_res(dst) || SAME(dst, g_tmp) || SAME(dst, g_z)) g_bad = 1; }   /* single element: no back-substitution step named aux yet */
    if (!SAME(dst, g_aux) || OFF(dst) != 0 || src != g_z) g_bad = 1; g_phase = 3; }
  else g_bad = 1;
}
void Goldilocks3_mul(GElement *out, GElement *a, GElement *b)
{
  if (g_phase == 1)
  { /* forward: tmp[f] <- tmp[f-1] * src[f] */
    if (g_f >= g_n || !SAME(out, g_tmp) || OFF(out) != 24 * g_f || !SAME(a, g_tmp) || OFF(a) != 24 * (g_f - 1) || !SAME(b, g_src) || OFF(b) != 24 * g_f) g_bad = 1;
    g_f++;
  }
  else if (g_phase == 2 && g_b >= 1 && g_sub == 0)
  { /* backward, first product: aux[b] <- z * tmp[b-1] */
    if (g_b == g_n - 1) { g_aux = out - 3 * (g_n - 1); if (in_src_or_res(out) || SAME(out, g_tmp) || SAME(out, g_z)) g_bad = 1; }
    if (!SAME(out, g_aux) || OFF(out) != 24 * g_b || a != g_z || !SAME(b, g_tmp) || OFF(b) != 24 * (g_b - 1)) g_bad = 1;
    g_sub = 1;
  }
  else if (g_phase == 2 && g_b >= 1 && g_sub == 1)
  { /* backward, second product: z <- z * src[b] */
    if (out != g_z || a != g_z || !SAME(b, g_src) || OFF(b) != 24 * g_b) g_bad = 1;
    g_sub = 0; g_b--;
  }
  else g_bad = 1;
}
void Goldilocks3_inv(GElement *out, GElement *a)
{
  if (g_phase != 1 || g_f != g_n || !SAME(a, g_tmp) || OFF(a) != 24 * (g_n - 1) || in_src_or_res(out) || SAME(out, g_tmp)) g_bad = 1;
  g_z = out; g_b = g_n - 1; g_sub = 0; g_phase = 2;
}
static void vf_memcpy(GElement *d, const GElement *s_, size_t n)
{ if (g_phase != 3 || d != g_res || !SAME(s_, g_aux) || OFF(s_) != 0 || n != 24 * g_n) g_bad = 1; g_phase = 4; }
#define LOOP_FWD \
  __CPROVER_assigns(i, g_f, g_bad) \
  __CPROVER_loop_invariant(!g_bad && g_phase == 1 && i >= 1 && i <= size && g_f == i) \
  __CPROVER_decreases(size - i)
#define LOOP_BWD \
  __CPROVER_assigns(i, g_b, g_sub, g_bad, g_aux) \
  __CPROVER_loop_invariant(!g_bad && g_phase == 2 && i <= size - 1 && g_b == i && g_sub == 0 && (i == size - 1 || (VF_AUX_TIE && __CPROVER_POINTER_OFFSET(g_aux) == 0 && !__CPROVER_same_object(g_aux, g_src) && !__CPROVER_same_object(g_aux, g_res) && !__CPROVER_same_object(g_aux, g_tmp) && !__CPROVER_same_object(g_aux, g_z)))) \
  __CPROVER_decreases(i)
/* VF_AUX_TIE (defined by the extraction at the top of gen_batchinv.c): ties the monitor's staging buffer to the local array `aux` when the function has one */
#include "gen_batchinv.c"
void hl_batchInverse(void)
{
  uint64_t size; _Bool inplace; __CPROVER_assume(size >= 1 && size <= (1UL << 20)); uint64_t vf_insize = size; (void)vf_insize;
  GElement *src = (GElement *)__CPROVER_allocate(0, 0), *res = inplace ? src : (GElement *)__CPROVER_allocate(0, 0);
  g_src = src; g_res = res; g_n = size; g_bad = 0; g_phase = 0; g_f = 0; g_b = 0; g_sub = 0; g_tmp = 0; g_aux = 0; g_z = 0;
  Goldilocks3_batchInverse((G3Element *)res, (G3Element *)src, size);
  __CPROVER_assert(!g_bad, "batchInverse.postcondition.1 (light): prefix products, one inversion, back-substitution on exactly the designated elements; nothing written into src / res before the final copy");
  __CPROVER_assert(g_phase == 4, "batchInverse.postcondition.2 (light): the size results are copied to res at the end");
  VF_SENTINEL;
}
