"""C09 - cubic extension arithmetic is exact in F_p[x]/(x^3 - x - 1)."""
import os, sys, re
sys.path.insert(0, os.path.dirname(os.path.dirname(os.path.dirname(os.path.abspath(__file__)))))
from vf.driver import Group, Unit, import_units
from vf import extract

PROPERTY = 'C09'
LEVEL = 'proof'
def filt(fromstring):
    def f_(repo_src, dst):
        f = extract.cubic_filter(repo_src, dst)
        f.drop_function('goldilocks_base_field_scalar.hpp', 'Goldilocks::mul', ptypes=['Element&', 'const Element&', 'const Element&'], expect=1, rule='E-callee')
        f.drop_function('goldilocks_base_field.cpp', 'Goldilocks::inv', expect=1, rule='E-callee')
        for op in ('add', 'sub'):
            f.drop_function('goldilocks_base_field_scalar.hpp', 'Goldilocks::' + op, ptypes=['Element&', 'const Element&', 'const Element&'], expect=1, rule='E-callee')
        if fromstring:
            f.drop_function('goldilocks_base_field_tools.hpp', 'Goldilocks::fromString', ptypes=['const std::string&', 'int'], expect=1, rule='E-callee')
        return f
    return f_
SRC = dict(cpp=['props/C09/wrappers.cpp', 'props/C09/forwarders.cpp'], c=['props/C09/contracts.c'], repo_cpp=['goldilocks_base_field.cpp', 'goldilocks_cubic_extension.cpp'])
GROUPS = {
    'f3': Group('f3', filt(False), defines=['VF_UF_ADDSUB'], cxx_defines=['VF_GMP_MODEL'], **SRC),
    'f3s': Group('f3s', filt(True), defines=['VF_UF_ADDSUB'], cxx_defines=['VF_GMP_MODEL', 'FWD_FROMSTRING'], **SRC),
}
H = 'src/goldilocks_cubic_extension.hpp'
UNITS = []
R = ['w_mul_v', 'w_inv_v', 'w_add_v', 'w_sub_v']
def U(name, desc, group='f3', replace=R, **kw):
    UNITS.append(Unit(name, group, name, replace=replace, functions=['Goldilocks3::%s (%s)' % (desc, H)], **kw))
for op in ('add', 'sub', 'mul'):
    for pat, d in (('', 'no aliasing'), ('_ra', 'result==a'), ('_rb', 'result==b'), ('_ab', 'a==b'), ('_rab', 'result==a==b')):
        U('f3_%s%s' % (op, pat), '%s(Element&,Element&,Element&) [%s]' % (op, d))
U('f3_mul_ptr', 'mul(Element*,Element*,Element*)')
for n, d in (('f3_add_u64', 'add(Element&,const Element&,const uint64_t&)'), ('f3_add_u64_ra', 'add(..uint64) [result==a]'), ('f3_add_e', 'add(Element&,const Element&,Goldilocks::Element)'),
             ('f3_add_e_ra', 'add(..base) [result==a]'), ('f3_add_e_first', 'add(Element&,Goldilocks::Element,const Element&)'),
             ('f3_sub_u64', 'sub(Element&,Element&,uint64_t&)'), ('f3_sub_u64_ra', 'sub(..uint64) [result==a]'), ('f3_sub_e', 'sub(Element&,Element&,Goldilocks::Element)'),
             ('f3_sub_e_first', 'sub(Element&,Goldilocks::Element,Element&)'), ('f3_sub_e_first_rb', 'sub(base,ext) [result==b]'),
             ('f3_neg', 'neg'), ('f3_neg_ra', 'neg [result==a]'),
             ('f3_mul_e', 'mul(Element&,Element&,Goldilocks::Element&)'), ('f3_mul_e_ra', 'mul(..base) [result==a]'), ('f3_mul_e_first', 'mul(Element&,Goldilocks::Element,Element&)'),
             ('f3_mul_u64', 'mul(Element&,Element&,uint64_t)'), ('f3_mul_u64_ra', 'mul(..uint64) [result==a]'),
             ('f3_square', 'square'), ('f3_square_ra', 'square [result==a]'),
             ('f3_div_e', 'div(Element&,Element&,Goldilocks::Element)'), ('f3_div_e_ra', 'div [result==a]'),
             
             ('f3_isOne', 'isOne'), ('f3_consts', 'zero()/one() both overloads'), ('f3_copy', 'copy(Element&,const Element&)'), ('f3_copy_ptr', 'copy(Element*,const Element*)'),
             ('f3_fromU64', 'fromU64'), ('f3_toU64', 'toU64'), ('f3_fromS32', 'fromS32')):
    U(n, d, flags=['--unwind', '4', '--unwinding-assertions'], loops='unwind 4 (constant trip count 3)')
U('f3_mulScalar', 'mulScalar(Element&,Element&,std::string&) [product; the parse is GMP]', group='f3s', replace=R + ['c_fromString_v'])
from vf import cify as _cify
def filt_bi(repo_src, dst):
    f = extract.Filter(repo_src, dst)
    f.check_macros()
    txt = _cify.cify(f, 'goldilocks_cubic_extension.hpp', 'batchInverse', 'Goldilocks3_batchInverse', [('inv', 'Goldilocks3_inv'), ('copy', 'Goldilocks3_copy')], {0: 'LOOP_FWD', 1: 'LOOP_BWD'}, in_class=True,
                     extra_rules=[(r'Goldilocks3::Element', 'G3Element'), (r'Goldilocks3::(copy|mul)\(', r'Goldilocks3_\1(')])
    if txt.count('Goldilocks3_mul(') != 3 or 'Goldilocks3_inv(' not in txt or txt.count('Goldilocks3_copy(') != 2:
        raise extract.ExtractError('M2: batchInverse: the expected calls (3 mul, inv, 2 copy) were not found')
    tie = '__CPROVER_same_object(g_aux, aux)' if re.search(r'\baux\[', txt) else '1'
    f.files = {'gen_batchinv.c': '#define VF_AUX_TIE %s\n' % tie + txt}
    return f
GROUPS['bi'] = Group('bi', filt_bi, c=['props/C09/contracts_batch.c'], repo_cpp=[])
UNITS.append(Unit('batchInverse', 'bi', 'Goldilocks3_batchInverse', harness='hl_batchInverse', light=True, loops='contract', timeout=600,
                  checks=['--bounds-check', '--pointer-check', '--undefined-shift-check', '--signed-overflow-check', '--div-by-zero-check'],
                  functions=['Goldilocks3::batchInverse (%s) [C-ified, two loop contracts, location monitor; all lengths 1..2^20, res == src or separate]' % H]))
# counterexample search in real arithmetic: the same units with addmod/submod defined (not uninterpreted); used only to
# obtain a replayable input after an obligation of the structural unit failed
GROUPS['f3x'] = Group('f3x', filt(False), cxx_defines=['VF_GMP_MODEL'], **SRC)
for u in list(UNITS):
    if u.group == 'f3':
        u.cex_unit = Unit(u.name + '__arith', 'f3x', u.enforce, replace=u.replace, flags=u.flags, functions=u.functions, timeout=60)
# the scalar callees this chain stands on: their contracts are enforced against the real bodies by C01 (mul) / C15 (fromString)
_g, _u = import_units('C01', lambda n: re.match(r'w_(mul|add|sub)(_oa|_ob|_ab|_oab|_v)?$|w_op_(times|plus|minus)$|w_neg(_oa|_v)?$|lemma_reduce_congruence$', n))
GROUPS.update(_g); UNITS += _u
_g, _u = import_units('C15', lambda n: re.match(r'c_fromString(_v)?$', n))
GROUPS.update(_g); UNITS += _u

NATIVE_FLAGS = ['-mavx2']
NATIVE_SOURCES = ['props/C09/wrappers.cpp']
TRUSTED_BASE = [
    'caller-facing contracts of Goldilocks::mul (canon(out) == MUL(a,b)) and Goldilocks::inv (returns only for a != 0, a*out == 1): mul enforced in C01 in witness form, inv in C10 (see there for its level)',
    'lemmas cubic_mul, cubic_inv (Lean 4 + Mathlib, lemmas/Goldilocks.lean): the Karatsuba DAG is the product mod x^3-x-1 in every commutative ring; cofactor DAG times a equals the norm',
    'ASSUMED, not proved: p is prime and x^3 - x - 1 is irreducible over F_p (so the norm of a non-zero element is non-zero and inv returns)',
    'mulScalar: the integer denoted by the decimal string is an input of the contract (GMP parse not verified, C15)',
    'CBMC C++ front end, dfcc, cadical; extraction rules under coverage.extraction (incl. E-norm: `(Element &)zero()` rewritten to the equivalent pointer form)',
]
ASSUMPTIONS = ['aliasing patterns covered: result==a, result==b, a==b, all equal; a base-element operand passed by reference that aliases a coefficient of the result is NOT covered']
EXPLANATION = 'Each scalar extension operation is checked against an exact expression DAG over the uninterpreted field product; the algebraic identity DAG = ring operation is a Lean lemma.'
MANIFEST_ENTRY = dict(
    category='proof',
    technique='CBMC code contracts over the scalar contracts (uninterpreted field product) + Lean ring lemmas for the Karatsuba / cofactor identities',
    text='All scalar cubic-extension operations (add/sub/neg/mul/square, mixed forms with a base element or integer, div by base, inv, mulScalar, isOne, copies and conversions) under contract with aliasing patterns; batch inversion for every length (schedule contract + Lean).',
    note='Irreducibility of x^3-x-1 and primality of p are assumed; batchInverse: location / schedule contract for all lengths (Lean lemma batch_inverse for the algebra); GMP parse trusted.')
GROUPS['f3light'] = Group('f3light', filt(False), defines=['VF_UF_ADDSUB', 'VF_LIGHT'], cxx_defines=['VF_GMP_MODEL'], **SRC)
for n, d in (('f3_inv', 'inv(Element&,Element&)'), ('f3_inv_ra', 'inv [result==a]'), ('f3_inv_ptr', 'inv(Element*,Element*)')):
    UNITS.append(Unit(n, 'f3light', n, harness='hl_' + n, light=True, functions=['Goldilocks3::%s (%s)' % (d, H)], timeout=600,
                      note='light mode: the function makes ~45 operator calls, >512 addressed objects under dfcc'))

LEMMAS = ['cubic_mul', 'cubic_inv', 'batch_inverse_step']
def extra_checks(rn, tier, ginfos):
    from vf import lean
    import os, json
    r = lean.check_lemmas(LEMMAS)
    if r.get('lean_failed'):
        path = os.path.join(os.environ.get('VF_REPLAY_DIR', os.path.join(os.path.dirname(os.path.dirname(os.path.dirname(os.path.abspath(__file__)))), 'replay', 'out')), PROPERTY)
        os.makedirs(path, exist_ok=True)
        f = os.path.join(path, 'lean-lemmas.json')
        json.dump(dict(property=PROPERTY, obligation='Lean lemmas ' + ', '.join(LEMMAS), verifier_output=r.get('lean_output', '')), open(f, 'w'), indent=1)
        r['violations'] = ['VIOLATION property=%s replay=%s [Lean lemma no longer accepted] no-failing-input-found' % (PROPERTY, f)]
    return r
