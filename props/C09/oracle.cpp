// C09 native oracle: real Goldilocks3 scalar ops against school-book arithmetic in F_p[x]/(x^3-x-1) with __int128.
#include <cstdint>
#include <cstdio>
#include <cstring>
#include <map>
#include <string>
#include <gmpxx.h>
#include "../../replay/ref.h"
typedef std::map<std::string, uint64_t> vf_inputs;
extern "C" {
#define B3(op) void f3_##op(uint64_t *, uint64_t *, uint64_t *); void f3_##op##_ra(uint64_t *, uint64_t *); void f3_##op##_rb(uint64_t *, uint64_t *); void f3_##op##_ab(uint64_t *, uint64_t *); void f3_##op##_rab(uint64_t *);
B3(add) B3(sub) B3(mul)
void f3_mul_ptr(uint64_t *, uint64_t *, uint64_t *);
#define M3(n) void f3_##n(uint64_t *, uint64_t *, uint64_t);
M3(add_u64) M3(add_e) M3(sub_u64) M3(sub_e) M3(mul_e) M3(mul_u64) M3(div_e)
#define M3R(n) void f3_##n(uint64_t *, uint64_t);
M3R(add_u64_ra) M3R(add_e_ra) M3R(sub_u64_ra) M3R(sub_e_first_rb) M3R(mul_e_ra) M3R(mul_u64_ra) M3R(div_e_ra)
void f3_add_e_first(uint64_t *, uint64_t, uint64_t *); void f3_sub_e_first(uint64_t *, uint64_t, uint64_t *); void f3_mul_e_first(uint64_t *, uint64_t, uint64_t *);
void f3_neg(uint64_t *, uint64_t *); void f3_neg_ra(uint64_t *); void f3_square(uint64_t *, uint64_t *); void f3_square_ra(uint64_t *);
void f3_inv(uint64_t *, uint64_t *); void f3_inv_ra(uint64_t *); void f3_inv_ptr(uint64_t *, uint64_t *); int f3_isOne(uint64_t *);
void f3_mulScalar(uint64_t *, uint64_t *, int, uint64_t, uint64_t);
}
struct X3 { uint64_t c[3]; };
static X3 mk(const uint64_t *p) { X3 x; for (int i = 0; i < 3; i++) x.c[i] = p[i] % REF_P; return x; }
static X3 add3(X3 a, X3 b) { X3 r; for (int i = 0; i < 3; i++) r.c[i] = ref_add(a.c[i], b.c[i]); return r; }
static X3 sub3(X3 a, X3 b) { X3 r; for (int i = 0; i < 3; i++) r.c[i] = ref_sub(a.c[i], b.c[i]); return r; }
static X3 mul3(X3 a, X3 b)
{ uint64_t c0 = ref_mul(a.c[0], b.c[0]), c1 = ref_add(ref_mul(a.c[0], b.c[1]), ref_mul(a.c[1], b.c[0])), c2 = ref_add(ref_add(ref_mul(a.c[0], b.c[2]), ref_mul(a.c[1], b.c[1])), ref_mul(a.c[2], b.c[0])),
  c3 = ref_add(ref_mul(a.c[1], b.c[2]), ref_mul(a.c[2], b.c[1])), c4 = ref_mul(a.c[2], b.c[2]);
  X3 r; r.c[0] = ref_add(c0, c3); r.c[1] = ref_add(ref_add(c1, c3), c4); r.c[2] = ref_add(c2, c4); return r; }  // x^3 = x+1, x^4 = x^2+x
static X3 base(uint64_t b) { X3 r = {{b % REF_P, 0, 0}}; return r; }
static X3 scal(X3 a, uint64_t s) { X3 r; for (int i = 0; i < 3; i++) r.c[i] = ref_mul(a.c[i], s); return r; }
static int cmp(const char *u, const uint64_t *got, X3 want)
{ int bad = 0; for (int i = 0; i < 3; i++) if (got[i] % REF_P != want.c[i]) { bad = 1; printf("%s coefficient %d: real code returned %llu (canonical %llu), exact value is %llu\n", u, i, (unsigned long long)got[i], (unsigned long long)(got[i] % REF_P), (unsigned long long)want.c[i]); }
  if (!bad) printf("%s: result equals the exact value in F_p[x]/(x^3-x-1)\n", u); return bad; }
int vf_replay(const std::string &u, vf_inputs &in)
{
    uint64_t a[3], b[3], r[3] = {0, 0, 0}; const char *s = u.c_str();
    for (int i = 0; i < 3; i++) { a[i] = in["a" + std::to_string(i)]; b[i] = in["b" + std::to_string(i)]; }
    uint64_t sb = in["b0"], sa = in["a0"]; X3 A = mk(a), B = mk(b);
    struct { const char *n; X3 (*f)(X3, X3); void (*g)(uint64_t*,uint64_t*,uint64_t*); void (*ra)(uint64_t*,uint64_t*); void (*rb)(uint64_t*,uint64_t*); void (*ab)(uint64_t*,uint64_t*); void (*rab)(uint64_t*); } bin[] = {
      {"add", add3, f3_add, f3_add_ra, f3_add_rb, f3_add_ab, f3_add_rab}, {"sub", sub3, f3_sub, f3_sub_ra, f3_sub_rb, f3_sub_ab, f3_sub_rab}, {"mul", mul3, f3_mul, f3_mul_ra, f3_mul_rb, f3_mul_ab, f3_mul_rab}};
    for (auto &t : bin) { std::string n = std::string("f3_") + t.n;
        if (u == n) { t.g(r, a, b); return cmp(s, r, t.f(A, B)); }
        if (u == n + "_ra") { t.ra(a, b); return cmp(s, a, t.f(A, B)); }
        if (u == n + "_rb") { t.rb(b, a); return cmp(s, b, t.f(A, B)); }
        if (u == n + "_ab") { t.ab(r, a); return cmp(s, r, t.f(A, A)); }
        if (u == n + "_rab") { t.rab(a); return cmp(s, a, t.f(A, A)); } }
    if (u == "f3_mul_ptr") { f3_mul_ptr(r, a, b); return cmp(s, r, mul3(A, B)); }
    if (u == "f3_add_u64") { f3_add_u64(r, a, sb); return cmp(s, r, add3(A, base(sb))); }
    if (u == "f3_add_u64_ra") { f3_add_u64_ra(a, sb); return cmp(s, a, add3(A, base(sb))); }
    if (u == "f3_add_e") { f3_add_e(r, a, sb); return cmp(s, r, add3(A, base(sb))); }
    if (u == "f3_add_e_ra") { f3_add_e_ra(a, sb); return cmp(s, a, add3(A, base(sb))); }
    if (u == "f3_add_e_first") { f3_add_e_first(r, sa, b); return cmp(s, r, add3(base(sa), B)); }
    if (u == "f3_sub_u64") { f3_sub_u64(r, a, sb); return cmp(s, r, sub3(A, base(sb))); }
    if (u == "f3_sub_u64_ra") { f3_sub_u64_ra(a, sb); return cmp(s, a, sub3(A, base(sb))); }
    if (u == "f3_sub_e") { f3_sub_e(r, a, sb); return cmp(s, r, sub3(A, base(sb))); }
    if (u == "f3_sub_e_first") { f3_sub_e_first(r, sa, b); return cmp(s, r, sub3(base(sa), B)); }
    if (u == "f3_sub_e_first_rb") { f3_sub_e_first_rb(b, sa); return cmp(s, b, sub3(base(sa), B)); }
    if (u == "f3_neg") { f3_neg(r, a); return cmp(s, r, sub3(base(0), A)); }
    if (u == "f3_neg_ra") { f3_neg_ra(a); return cmp(s, a, sub3(base(0), A)); }
    if (u == "f3_mul_e") { f3_mul_e(r, a, sb); return cmp(s, r, scal(A, sb)); }
    if (u == "f3_mul_e_ra") { f3_mul_e_ra(a, sb); return cmp(s, a, scal(A, sb)); }
    if (u == "f3_mul_e_first") { f3_mul_e_first(r, sa, b); return cmp(s, r, scal(B, sa)); }
    if (u == "f3_mul_u64") { f3_mul_u64(r, a, sb); return cmp(s, r, scal(A, sb)); }
    if (u == "f3_mul_u64_ra") { f3_mul_u64_ra(a, sb); return cmp(s, a, scal(A, sb)); }
    if (u == "f3_square") { f3_square(r, a); return cmp(s, r, mul3(A, A)); }
    if (u == "f3_square_ra") { f3_square_ra(a); return cmp(s, a, mul3(A, A)); }
    if (u == "f3_div_e" || u == "f3_div_e_ra") { if (sb % REF_P == 0) { printf("divisor congruent to zero: the call does not return\n"); return 0; }
        if (u == "f3_div_e") { f3_div_e(r, a, sb); return cmp(s, r, scal(A, ref_inv(sb))); } f3_div_e_ra(a, sb); return cmp(s, a, scal(A, ref_inv(sb))); }
    if (u == "f3_inv" || u == "f3_inv_ra" || u == "f3_inv_ptr") { if (A.c[0] == 0 && A.c[1] == 0 && A.c[2] == 0) { printf("zero has no inverse: the call does not return\n"); return 0; }
        if (u == "f3_inv") f3_inv(r, a); else if (u == "f3_inv_ptr") f3_inv_ptr(r, a); else { f3_inv_ra(a); memcpy(r, a, 24); }
        X3 pr = mul3(A, mk(r)); uint64_t one[3] = {pr.c[0], pr.c[1], pr.c[2]}; X3 w = {{1, 0, 0}}; return cmp(s, one, w); }
    if (u == "f3_isOne") { int g = f3_isOne(a); bool w = A.c[0] == 1 && A.c[1] == 0 && A.c[2] == 0; printf("isOne((%llu,%llu,%llu)) -> %d, exact answer %d\n", (unsigned long long)a[0], (unsigned long long)a[1], (unsigned long long)a[2], g, (int)w); return (g != 0) == w ? 0 : 1; }
    if (u == "f3_mulScalar") { int neg = (int)in["n0"]; uint64_t hi = in["n1"], lo = in["n2"]; f3_mulScalar(r, a, neg, hi, lo);
        mpz_class v, l; mpz_import(v.get_mpz_t(), 1, 1, 8, 0, 0, &hi); v <<= 64; mpz_import(l.get_mpz_t(), 1, 1, 8, 0, 0, &lo); v += l; if (neg) v = -v; mpz_class p("18446744069414584321"), m; mpz_mod(m.get_mpz_t(), v.get_mpz_t(), p.get_mpz_t());
        uint64_t sc = 0; size_t n = 0; mpz_export(&sc, &n, 1, 8, 0, 0, m.get_mpz_t()); return cmp(s, r, scal(A, n ? sc : 0)); }
    return 3;
}
