// C09 wrappers: scalar cubic-extension operations.  An extension element is uint64_t[3] (coefficients of 1, x, x^2).
#include "goldilocks_base_field.hpp"
#include "goldilocks_cubic_extension.hpp"
#include "vf_wrap.h"
typedef Goldilocks::Element E;
typedef Goldilocks3::Element E3;
#define R3(p) (*(E3 *)(p))
#define IN3(k, p) VF_IN(k##0, (p)[0]); VF_IN(k##1, (p)[1]); VF_IN(k##2, (p)[2])

// extension (+,-,*) extension, with the aliasing patterns result==a, result==b, a==b, all equal
#define F3_BIN(op) \
extern "C" void f3_##op(uint64_t *r, uint64_t *a, uint64_t *b) { IN3(a, a); IN3(b, b); Goldilocks3::op(R3(r), R3(a), R3(b)); } \
extern "C" void f3_##op##_ra(uint64_t *ra, uint64_t *b) { IN3(a, ra); IN3(b, b); Goldilocks3::op(R3(ra), R3(ra), R3(b)); } \
extern "C" void f3_##op##_rb(uint64_t *rb, uint64_t *a) { IN3(a, a); IN3(b, rb); Goldilocks3::op(R3(rb), R3(a), R3(rb)); } \
extern "C" void f3_##op##_ab(uint64_t *r, uint64_t *ab) { IN3(a, ab); IN3(b, ab); Goldilocks3::op(R3(r), R3(ab), R3(ab)); } \
extern "C" void f3_##op##_rab(uint64_t *rab) { IN3(a, rab); IN3(b, rab); Goldilocks3::op(R3(rab), R3(rab), R3(rab)); }
F3_BIN(add)
F3_BIN(sub)
F3_BIN(mul)
extern "C" void f3_mul_ptr(uint64_t *r, uint64_t *a, uint64_t *b) { IN3(a, a); IN3(b, b); Goldilocks3::mul((E3 *)r, (E3 *)a, (E3 *)b); }
// mixed forms
extern "C" void f3_add_u64(uint64_t *r, uint64_t *a, uint64_t b) { IN3(a, a); VF_IN(b0, b); Goldilocks3::add(R3(r), R3(a), b); }
extern "C" void f3_add_u64_ra(uint64_t *ra, uint64_t b) { IN3(a, ra); VF_IN(b0, b); Goldilocks3::add(R3(ra), R3(ra), b); }
extern "C" void f3_add_e(uint64_t *r, uint64_t *a, uint64_t b) { IN3(a, a); VF_IN(b0, b); E e = {b}; Goldilocks3::add(R3(r), R3(a), e); }
extern "C" void f3_add_e_ra(uint64_t *ra, uint64_t b) { IN3(a, ra); VF_IN(b0, b); E e = {b}; Goldilocks3::add(R3(ra), R3(ra), e); }
extern "C" void f3_add_e_first(uint64_t *r, uint64_t a, uint64_t *b) { VF_IN(a0, a); IN3(b, b); E e = {a}; Goldilocks3::add(R3(r), e, R3(b)); }
extern "C" void f3_sub_u64(uint64_t *r, uint64_t *a, uint64_t b) { IN3(a, a); VF_IN(b0, b); Goldilocks3::sub(R3(r), R3(a), b); }
extern "C" void f3_sub_u64_ra(uint64_t *ra, uint64_t b) { IN3(a, ra); VF_IN(b0, b); Goldilocks3::sub(R3(ra), R3(ra), b); }
extern "C" void f3_sub_e(uint64_t *r, uint64_t *a, uint64_t b) { IN3(a, a); VF_IN(b0, b); E e = {b}; Goldilocks3::sub(R3(r), R3(a), e); }
extern "C" void f3_sub_e_first(uint64_t *r, uint64_t a, uint64_t *b) { VF_IN(a0, a); IN3(b, b); E e = {a}; Goldilocks3::sub(R3(r), e, R3(b)); }
extern "C" void f3_sub_e_first_rb(uint64_t *rb, uint64_t a) { VF_IN(a0, a); IN3(b, rb); E e = {a}; Goldilocks3::sub(R3(rb), e, R3(rb)); }
extern "C" void f3_neg(uint64_t *r, uint64_t *a) { IN3(a, a); Goldilocks3::neg(R3(r), R3(a)); }
extern "C" void f3_neg_ra(uint64_t *ra) { IN3(a, ra); Goldilocks3::neg(R3(ra), R3(ra)); }
extern "C" void f3_mul_e(uint64_t *r, uint64_t *a, uint64_t b) { IN3(a, a); VF_IN(b0, b); E e = {b}; Goldilocks3::mul(R3(r), R3(a), e); }
extern "C" void f3_mul_e_ra(uint64_t *ra, uint64_t b) { IN3(a, ra); VF_IN(b0, b); E e = {b}; Goldilocks3::mul(R3(ra), R3(ra), e); }
extern "C" void f3_mul_e_first(uint64_t *r, uint64_t a, uint64_t *b) { VF_IN(a0, a); IN3(b, b); E e = {a}; Goldilocks3::mul(R3(r), e, R3(b)); }
extern "C" void f3_mul_u64(uint64_t *r, uint64_t *a, uint64_t b) { IN3(a, a); VF_IN(b0, b); Goldilocks3::mul(R3(r), R3(a), b); }
extern "C" void f3_mul_u64_ra(uint64_t *ra, uint64_t b) { IN3(a, ra); VF_IN(b0, b); Goldilocks3::mul(R3(ra), R3(ra), b); }
extern "C" void f3_square(uint64_t *r, uint64_t *a) { IN3(a, a); Goldilocks3::square(R3(r), R3(a)); }
extern "C" void f3_square_ra(uint64_t *ra) { IN3(a, ra); Goldilocks3::square(R3(ra), R3(ra)); }
extern "C" void f3_div_e(uint64_t *r, uint64_t *a, uint64_t b) { IN3(a, a); VF_IN(b0, b); E e = {b}; Goldilocks3::div(R3(r), R3(a), e); }
extern "C" void f3_div_e_ra(uint64_t *ra, uint64_t b) { IN3(a, ra); VF_IN(b0, b); E e = {b}; Goldilocks3::div(R3(ra), R3(ra), e); }
extern "C" void f3_inv(uint64_t *r, uint64_t *a) { IN3(a, a); Goldilocks3::inv(R3(r), R3(a)); }
extern "C" void f3_inv_ra(uint64_t *ra) { IN3(a, ra); Goldilocks3::inv(R3(ra), R3(ra)); }
extern "C" void f3_inv_ptr(uint64_t *r, uint64_t *a) { IN3(a, a); Goldilocks3::inv((E3 *)r, (E3 *)a); }
extern "C" int f3_isOne(uint64_t *a) { IN3(a, a); return Goldilocks3::isOne(R3(a)); }
extern "C" void f3_consts(uint64_t *out) { const E3 &z = Goldilocks3::zero(); const E3 &o = Goldilocks3::one(); E3 z2, o2; Goldilocks3::zero(z2); Goldilocks3::one(o2);
  for (int i = 0; i < 3; i++) { out[i] = z[i].fe; out[3 + i] = o[i].fe; out[6 + i] = z2[i].fe; out[9 + i] = o2[i].fe; } }
extern "C" void f3_copy(uint64_t *d, uint64_t *s) { IN3(a, s); Goldilocks3::copy(R3(d), R3(s)); }
extern "C" void f3_copy_ptr(uint64_t *d, uint64_t *s) { IN3(a, s); Goldilocks3::copy((E3 *)d, (const E3 *)s); }
extern "C" void f3_fromU64(uint64_t *r, uint64_t *in) { IN3(a, in); Goldilocks3::fromU64(R3(r), in); }
extern "C" void f3_toU64(uint64_t *out, uint64_t *a) { IN3(a, a); uint64_t t[3]; Goldilocks3::toU64(t, R3(a)); out[0] = t[0]; out[1] = t[1]; out[2] = t[2]; }
extern "C" void f3_fromS32(uint64_t *r, int32_t *in) { VF_IN(a0, (int64_t)in[0]); VF_IN(a1, (int64_t)in[1]); VF_IN(a2, (int64_t)in[2]); Goldilocks3::fromS32(R3(r), in); }
// multiplication by a decimal string: the parse is GMP's (C15); the integer the string denotes is (neg,hi,lo)
#ifndef VF_NATIVE
extern "C" { extern int vf_parsed_neg; extern uint64_t vf_parsed_hi, vf_parsed_lo; }
#endif
extern "C" void f3_mulScalar(uint64_t *r, uint64_t *a, int neg, uint64_t hi, uint64_t lo)
{
  IN3(a, a); VF_IN(n0, neg); VF_IN(n1, hi); VF_IN(n2, lo);
#ifdef VF_NATIVE
  mpz_class v, l; mpz_import(v.get_mpz_t(), 1, 1, 8, 0, 0, &hi); v <<= 64; mpz_import(l.get_mpz_t(), 1, 1, 8, 0, 0, &lo); v += l; if (neg) v = -v; std::string s = v.get_str(10);
#else
  vf_parsed_neg = neg; vf_parsed_hi = hi; vf_parsed_lo = lo; std::string s;
#endif
  Goldilocks3::mulScalar(R3(r), R3(a), s);
}
