/* C15 contracts: conversions are total, canonical and round-trip; predicates depend only on residue classes. */
#include "spec.h"
#define VF_SENTINEL __CPROVER_assert(0, "vf_sentinel: harness reaches the point after the call")
typedef int s32;
#define HALF 0x7FFFFFFF80000000UL /* (p-1)/2 */

/* residue of a signed 64-bit integer */
static inline u64 res_s64(s64 x) { return x >= 0 ? (u64)x : (u64)((s128)x + (s128)GP); }

u64 c_fromU64_v(u64 x) __CPROVER_assigns() __CPROVER_ensures(canon(__CPROVER_return_value) == canon(x));
void h_c_fromU64_v(void) { u64 x; c_fromU64_v(x); VF_SENTINEL; }
void c_fromU64(u64 *out, u64 x) __CPROVER_requires(__CPROVER_is_fresh(out, 8)) __CPROVER_assigns(*out) __CPROVER_ensures(canon(*out) == canon(x));
void h_c_fromU64(void) { u64 *o, x; c_fromU64(o, x); VF_SENTINEL; }
u64 c_fromS64_v(s64 x) __CPROVER_assigns() __CPROVER_ensures(canon(__CPROVER_return_value) == res_s64(x));
void h_c_fromS64_v(void) { s64 x; c_fromS64_v(x); VF_SENTINEL; }
void c_fromS64(u64 *out, s64 x) __CPROVER_requires(__CPROVER_is_fresh(out, 8)) __CPROVER_assigns(*out) __CPROVER_ensures(canon(*out) == res_s64(x));
void h_c_fromS64(void) { u64 *o; s64 x; c_fromS64(o, x); VF_SENTINEL; }
u64 c_fromS32_v(s32 x) __CPROVER_assigns() __CPROVER_ensures(canon(__CPROVER_return_value) == res_s64((s64)x));
void h_c_fromS32_v(void) { s32 x; c_fromS32_v(x); VF_SENTINEL; }
void c_fromS32(u64 *out, s32 x) __CPROVER_requires(__CPROVER_is_fresh(out, 8)) __CPROVER_assigns(*out) __CPROVER_ensures(canon(*out) == res_s64((s64)x));
void h_c_fromS32(void) { u64 *o; s32 x; c_fromS32(o, x); VF_SENTINEL; }
u64 c_toU64_v(u64 e) __CPROVER_assigns() __CPROVER_ensures(__CPROVER_return_value == canon(e));
void h_c_toU64_v(void) { u64 e; c_toU64_v(e); VF_SENTINEL; }
void c_toU64(u64 *out, u64 e) __CPROVER_requires(__CPROVER_is_fresh(out, 8)) __CPROVER_assigns(*out) __CPROVER_ensures(*out == canon(e));
void h_c_toU64(void) { u64 *o, e; c_toU64(o, e); VF_SENTINEL; }

int c_equal(u64 a, u64 b) __CPROVER_assigns() __CPROVER_ensures((__CPROVER_return_value != 0) == (canon(a) == canon(b)));
void h_c_equal(void) { u64 a, b; c_equal(a, b); VF_SENTINEL; }
int c_op_eq(u64 a, u64 b) __CPROVER_assigns() __CPROVER_ensures((__CPROVER_return_value != 0) == (canon(a) == canon(b)));
void h_c_op_eq(void) { u64 a, b; c_op_eq(a, b); VF_SENTINEL; }
int c_isZero(u64 a) __CPROVER_assigns() __CPROVER_ensures((__CPROVER_return_value != 0) == (canon(a) == 0));
void h_c_isZero(void) { u64 a; c_isZero(a); VF_SENTINEL; }
int c_isOne(u64 a) __CPROVER_assigns() __CPROVER_ensures((__CPROVER_return_value != 0) == (canon(a) == 1));
void h_c_isOne(void) { u64 a; c_isOne(a); VF_SENTINEL; }
int c_isNegone(u64 a) __CPROVER_assigns() __CPROVER_ensures((__CPROVER_return_value != 0) == (canon(a) == GP - 1));
void h_c_isNegone(void) { u64 a; c_isNegone(a); VF_SENTINEL; }
void c_consts(u64 *out) __CPROVER_requires(__CPROVER_is_fresh(out, 64)) __CPROVER_assigns(__CPROVER_object_whole(out))
  __CPROVER_ensures(out[0] == 0 && out[1] == 1 && out[2] == GP - 1 && out[3] == 7 && out[4] == 0 && out[5] == 1 && out[6] == GP - 1 && out[7] == 7);
void h_c_consts(void) { u64 *o; c_consts(o); VF_SENTINEL; }

/* centred lift of the residue: c if c <= (p-1)/2, else c - p */
static inline s64 centred(u64 e) { u64 c = e >= GP ? e - GP : e; return c <= HALF ? (s64)c : (s64)((s128)c - (s128)GP); }
s64 c_toS64_v(u64 e) __CPROVER_assigns() __CPROVER_ensures(__CPROVER_return_value == centred(e));
void h_c_toS64_v(void) { u64 e; c_toS64_v(e); VF_SENTINEL; }
void c_toS64(s64 *out, u64 e) __CPROVER_requires(__CPROVER_is_fresh(out, 8)) __CPROVER_assigns(*out) __CPROVER_ensures(*out == centred(e));
void h_c_toS64(void) { s64 *o; u64 e; c_toS64(o, e); VF_SENTINEL; }
/* 32-bit: success exactly when the centred value lies in [-2^31, 2^31); then the value is delivered */
int c_toS32(s32 *out, u64 e) __CPROVER_requires(__CPROVER_is_fresh(out, 4)) __CPROVER_assigns(*out)
  __CPROVER_ensures((__CPROVER_return_value != 0) == (centred(e) >= -2147483648L && centred(e) <= 2147483647L))
  __CPROVER_ensures(__CPROVER_return_value == 0 || (s64)*out == centred(e));
void h_c_toS32(void) { s32 *o; u64 e; c_toS32(o, e); VF_SENTINEL; }

/* big integers x = (-1)^neg * (hi*2^64 + lo), |x| < 2^126: the result is the canonical... a representation r with
 * canon(r) == x mod p, stated linearly:  r == +-T(hi,lo) + k*p  (T is congruent to the magnitude, C01 lemma_reduce_congruence) */
int vf_parsed_neg; u64 vf_parsed_hi, vf_parsed_lo; /* ghost: the integer the string denotes (E-gmp) */
#define MAGOK(hi) ((hi) < (1UL << 62))
static inline _Bool is_residue(u64 r, int neg, u64 hi, u64 lo)
{
  u64 c = r >= GP ? r - GP : r;
  s128 hl = (s128)(hi & 0xFFFFFFFFUL), hh = (s128)(hi >> 32);
  s128 T = (s128)lo + ((hl << 32) - hl) - hh;
  if (neg) T = -T;
  s128 d = (s128)c - T, Pp = (s128)GP;
  return d == 0 || d == Pp || d == -Pp || d == 2 * Pp || d == -2 * Pp || d == 3 * Pp || d == -3 * Pp;
}
u64 c_fromScalar_v(int neg, u64 hi, u64 lo) __CPROVER_requires(MAGOK(hi)) __CPROVER_assigns()
  __CPROVER_ensures(is_residue(__CPROVER_return_value, neg, hi, lo));
void h_c_fromScalar_v(void) { int n; u64 hi, lo; c_fromScalar_v(n, hi, lo); VF_SENTINEL; }
void c_fromScalar(u64 *out, int neg, u64 hi, u64 lo) __CPROVER_requires(MAGOK(hi) && __CPROVER_is_fresh(out, 8)) __CPROVER_assigns(*out)
  __CPROVER_ensures(is_residue(*out, neg, hi, lo));
void h_c_fromScalar(void) { u64 *o; int n; u64 hi, lo; c_fromScalar(o, n, hi, lo); VF_SENTINEL; }
void c_fromString(u64 *out, int neg, u64 hi, u64 lo, int radix) __CPROVER_requires(MAGOK(hi) && __CPROVER_is_fresh(out, 8) && radix >= 2 && radix <= 36) __CPROVER_assigns(*out, vf_parsed_neg, vf_parsed_hi, vf_parsed_lo)
  __CPROVER_ensures(is_residue(*out, neg, hi, lo));
void h_c_fromString(void) { u64 *o; int n, r; u64 hi, lo; c_fromString(o, n, hi, lo, r); VF_SENTINEL; }
u64 c_fromString_v(int neg, u64 hi, u64 lo, int radix) __CPROVER_requires(MAGOK(hi) && radix >= 2 && radix <= 36) __CPROVER_assigns(vf_parsed_neg, vf_parsed_hi, vf_parsed_lo)
  __CPROVER_ensures(is_residue(__CPROVER_return_value, neg, hi, lo));
void h_c_fromString_v(void) { int n, r; u64 hi, lo; c_fromString_v(n, hi, lo, r); VF_SENTINEL; }

/* round trips */
u64 c_rt_u64(u64 x) __CPROVER_requires(x < GP) __CPROVER_assigns() __CPROVER_ensures(__CPROVER_return_value == x);
void h_c_rt_u64(void) { u64 x; c_rt_u64(x); VF_SENTINEL; }
s64 c_rt_s64(s64 x) __CPROVER_requires(x >= -(s64)HALF && x <= (s64)HALF) __CPROVER_assigns() __CPROVER_ensures(__CPROVER_return_value == x);
void h_c_rt_s64(void) { s64 x; c_rt_s64(x); VF_SENTINEL; }
int c_rt_s32(s32 *out, s32 x) __CPROVER_requires(__CPROVER_is_fresh(out, 4)) __CPROVER_assigns(*out) __CPROVER_ensures(__CPROVER_return_value != 0 && *out == x);
void h_c_rt_s32(void) { s32 *o, x; c_rt_s32(o, x); VF_SENTINEL; }
u64 vf_nondet_u64(void) { u64 x; return x; }
_Bool vf_nondet_bool(void) { _Bool x; return x; }
