// C15 native oracle: real conversion functions (real GMP) against GMP / __int128 reference arithmetic.
#include <cstdint>
#include <cstdio>
#include <map>
#include <string>
#include <gmpxx.h>
#include "../../replay/ref.h"
typedef std::map<std::string, uint64_t> vf_inputs;
extern "C" {
uint64_t c_fromU64_v(uint64_t); void c_fromU64(uint64_t *, uint64_t); uint64_t c_fromS64_v(int64_t); void c_fromS64(uint64_t *, int64_t);
uint64_t c_fromS32_v(int32_t); void c_fromS32(uint64_t *, int32_t); uint64_t c_toU64_v(uint64_t); void c_toU64(uint64_t *, uint64_t);
int c_equal(uint64_t, uint64_t); int c_op_eq(uint64_t, uint64_t); int c_isZero(uint64_t); int c_isOne(uint64_t); int c_isNegone(uint64_t); void c_consts(uint64_t *);
int64_t c_toS64_v(uint64_t); void c_toS64(int64_t *, uint64_t); int c_toS32(int32_t *, uint64_t);
uint64_t c_fromScalar_v(int, uint64_t, uint64_t); void c_fromScalar(uint64_t *, int, uint64_t, uint64_t);
void c_fromString(uint64_t *, int, uint64_t, uint64_t, int); uint64_t c_fromString_v(int, uint64_t, uint64_t, int);
uint64_t c_rt_u64(uint64_t); int64_t c_rt_s64(int64_t); int c_rt_s32(int32_t *, int32_t);
}
static uint64_t res_s64(int64_t x) { __int128 v = x; v %= (__int128)REF_P; if (v < 0) v += REF_P; return (uint64_t)v; }
static int64_t centred(uint64_t e) { uint64_t c = e % REF_P; return c <= (REF_P - 1) / 2 ? (int64_t)c : (int64_t)((__int128)c - REF_P); }
static uint64_t res_big(int neg, uint64_t hi, uint64_t lo)
{ mpz_class v, l; mpz_import(v.get_mpz_t(), 1, 1, 8, 0, 0, &hi); v <<= 64; mpz_import(l.get_mpz_t(), 1, 1, 8, 0, 0, &lo); v += l; if (neg) v = -v;
  mpz_class p("18446744069414584321"), r; mpz_mod(r.get_mpz_t(), v.get_mpz_t(), p.get_mpz_t()); uint64_t out = 0; size_t n = 0; mpz_export(&out, &n, 1, 8, 0, 0, r.get_mpz_t()); return n ? out : 0; }
#define V(ok, ...) do { printf(__VA_ARGS__); printf("\n"); return (ok) ? 0 : 1; } while (0)
int vf_replay(const std::string &u, vf_inputs &in)
{
    uint64_t a = in["0"], b = in["1"], c = in["2"], o = 0; int64_t so = 0; int32_t s32 = 0; int r;
    if (u == "c_fromU64_v") { o = c_fromU64_v(a); V(o % REF_P == a % REF_P, "fromU64(%llu) -> %llu", (unsigned long long)a, (unsigned long long)o); }
    if (u == "c_fromU64") { c_fromU64(&o, a); V(o % REF_P == a % REF_P, "fromU64(%llu) -> %llu", (unsigned long long)a, (unsigned long long)o); }
    if (u == "c_fromS64_v") { o = c_fromS64_v((int64_t)a); V(o % REF_P == res_s64((int64_t)a), "fromS64(%lld) -> %llu want residue %llu", (long long)a, (unsigned long long)o, (unsigned long long)res_s64((int64_t)a)); }
    if (u == "c_fromS64") { c_fromS64(&o, (int64_t)a); V(o % REF_P == res_s64((int64_t)a), "fromS64(%lld) -> %llu", (long long)a, (unsigned long long)o); }
    if (u == "c_fromS32_v") { o = c_fromS32_v((int32_t)(int64_t)a); V(o % REF_P == res_s64((int32_t)(int64_t)a), "fromS32(%d) -> %llu", (int32_t)(int64_t)a, (unsigned long long)o); }
    if (u == "c_fromS32") { c_fromS32(&o, (int32_t)(int64_t)a); V(o % REF_P == res_s64((int32_t)(int64_t)a), "fromS32(%d) -> %llu", (int32_t)(int64_t)a, (unsigned long long)o); }
    if (u == "c_toU64_v") { o = c_toU64_v(a); V(o == a % REF_P, "toU64(%llu) -> %llu", (unsigned long long)a, (unsigned long long)o); }
    if (u == "c_toU64") { c_toU64(&o, a); V(o == a % REF_P, "toU64(%llu) -> %llu", (unsigned long long)a, (unsigned long long)o); }
    if (u == "c_equal" || u == "c_op_eq") { r = u == "c_equal" ? c_equal(a, b) : c_op_eq(a, b); V((r != 0) == (a % REF_P == b % REF_P), "equal(%llu,%llu) -> %d", (unsigned long long)a, (unsigned long long)b, r); }
    if (u == "c_isZero") { r = c_isZero(a); V((r != 0) == (a % REF_P == 0), "isZero(%llu) -> %d", (unsigned long long)a, r); }
    if (u == "c_isOne") { r = c_isOne(a); V((r != 0) == (a % REF_P == 1), "isOne(%llu) -> %d", (unsigned long long)a, r); }
    if (u == "c_isNegone") { r = c_isNegone(a); V((r != 0) == (a % REF_P == REF_P - 1), "isNegone(%llu) -> %d", (unsigned long long)a, r); }
    if (u == "c_consts") { uint64_t k[8]; c_consts(k); V(k[0] == 0 && k[1] == 1 && k[2] == REF_P - 1 && k[3] == 7 && k[4] == 0 && k[5] == 1 && k[6] == REF_P - 1 && k[7] == 7, "constants zero/one/negone/shift"); }
    if (u == "c_toS64_v") { so = c_toS64_v(a); V(so == centred(a), "toS64(%llu) -> %lld want %lld", (unsigned long long)a, (long long)so, (long long)centred(a)); }
    if (u == "c_toS64") { c_toS64(&so, a); V(so == centred(a), "toS64(%llu) -> %lld want %lld", (unsigned long long)a, (long long)so, (long long)centred(a)); }
    if (u == "c_toS32") { r = c_toS32(&s32, a); int64_t w = centred(a); bool fits = w >= INT32_MIN && w <= INT32_MAX;
        V((r != 0) == fits && (!r || s32 == w), "toS32(%llu) -> ok=%d value=%d ; centred value %lld %s in int32 range", (unsigned long long)a, r, s32, (long long)w, fits ? "is" : "is not"); }
    if (u == "c_fromScalar_v") { o = c_fromScalar_v((int)a, b, c); V(o % REF_P == res_big((int)a, b, c), "fromScalar(%s(%llu*2^64+%llu)) -> %llu want residue %llu", a ? "-" : "+", (unsigned long long)b, (unsigned long long)c, (unsigned long long)o, (unsigned long long)res_big((int)a, b, c)); }
    if (u == "c_fromScalar") { c_fromScalar(&o, (int)a, b, c); V(o % REF_P == res_big((int)a, b, c), "fromScalar(%s(%llu*2^64+%llu)) -> %llu want residue %llu", a ? "-" : "+", (unsigned long long)b, (unsigned long long)c, (unsigned long long)o, (unsigned long long)res_big((int)a, b, c)); }
    if (u == "c_fromString" || u == "c_fromString_v") { int radix = (int)in["3"]; if (u == "c_fromString") c_fromString(&o, (int)a, b, c, radix); else o = c_fromString_v((int)a, b, c, radix);
        V(o % REF_P == res_big((int)a, b, c), "fromString(%s(%llu*2^64+%llu), radix %d) -> %llu want residue %llu", a ? "-" : "+", (unsigned long long)b, (unsigned long long)c, radix, (unsigned long long)o, (unsigned long long)res_big((int)a, b, c)); }
    if (u == "c_rt_u64") { o = c_rt_u64(a); V(o == a, "toU64(fromU64(%llu)) -> %llu", (unsigned long long)a, (unsigned long long)o); }
    if (u == "c_rt_s64") { so = c_rt_s64((int64_t)a); V(so == (int64_t)a, "toS64(fromS64(%lld)) -> %lld", (long long)a, (long long)so); }
    if (u == "c_rt_s32") { r = c_rt_s32(&s32, (int32_t)(int64_t)a); V(r != 0 && s32 == (int32_t)(int64_t)a, "toS32(fromS32(%d)) -> ok=%d value=%d", (int32_t)(int64_t)a, r, s32); }
    return 3;
}
