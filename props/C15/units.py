"""C15 - conversions are total, canonical, round-trip; predicates ignore representation."""
import os, sys
sys.path.insert(0, os.path.dirname(os.path.dirname(os.path.dirname(os.path.abspath(__file__)))))
from vf.driver import Group, Unit
from vf import extract

PROPERTY = 'C15'
LEVEL = 'proof'
GROUPS = {'gmp': Group('gmp', extract.gmp_filter, cpp=['props/C15/wrappers.cpp'], c=['props/C15/contracts.c'], cxx_defines=['VF_GMP_MODEL'])}
T = 'src/goldilocks_base_field_tools.hpp'
S = 'src/goldilocks_base_field_scalar.hpp'
UNITS = []
def U(name, fn, **kw):
    UNITS.append(Unit(name, 'gmp', name, functions=[fn], **kw))
U('c_fromU64_v', 'Goldilocks::fromU64(uint64_t) (%s)' % T); U('c_fromU64', 'Goldilocks::fromU64(Element&,uint64_t) (%s)' % T)
U('c_fromS64_v', 'Goldilocks::fromS64(int64_t) (%s)' % T); U('c_fromS64', 'Goldilocks::fromS64(Element&,int64_t) (%s)' % T)
U('c_fromS32_v', 'Goldilocks::fromS32(int32_t) (%s)' % T); U('c_fromS32', 'Goldilocks::fromS32(Element&,int32_t) (%s)' % T)
U('c_toU64_v', 'Goldilocks::toU64(const Element&) (%s)' % T); U('c_toU64', 'Goldilocks::toU64(uint64_t&,const Element&) (%s)' % T)
U('c_equal', 'Goldilocks::equal (%s)' % S); U('c_op_eq', 'operator==(Element,Element) (src/goldilocks_base_field.hpp)')
U('c_isZero', 'Goldilocks::isZero (%s)' % S); U('c_isOne', 'Goldilocks::isOne (%s)' % S); U('c_isNegone', 'Goldilocks::isNegone (%s)' % S)
U('c_consts', 'Goldilocks::zero/one/negone/shift, both overloads (%s, goldilocks_base_field.cpp)' % T)
G = ' [mpz_class bound to int128: assumed GMP contracts]'
U('c_toS64_v', 'Goldilocks::toS64(const Element&) (%s)%s' % (T, G)); U('c_toS64', 'Goldilocks::toS64(int64_t&,const Element&) (%s)%s' % (T, G))
U('c_toS32', 'Goldilocks::toS32(int32_t&,const Element&) (%s)%s' % (T, G))
U('c_fromScalar_v', 'Goldilocks::fromScalar(const mpz_class&) (%s)%s' % (T, G), timeout=600)
U('c_fromScalar', 'Goldilocks::fromScalar(Element&,const mpz_class&) (%s)%s' % (T, G), timeout=600)
U('c_fromString', 'Goldilocks::fromString(Element&,const string&,int): arithmetic after the parse (%s)%s' % (T, G), timeout=600)
U('c_fromString_v', 'Goldilocks::fromString(const string&,int): arithmetic after the parse (%s)%s' % (T, G), timeout=600)
U('c_rt_u64', 'toU64(fromU64(x)) == x for x < p'); U('c_rt_s64', 'toS64(fromS64(x)) == x for |x| <= (p-1)/2'); U('c_rt_s32', 'toS32(fromS32(x)) succeeds and == x for every int32')

NATIVE_FLAGS = ['-mavx2']
TRUSTED_BASE = [
    'assumed contracts on GMP (stubs/vf_gmp_model.h): mpz arithmetic exact, operator% truncating (sign of dividend), get_ui = low 64 bits of |x|, get_si as in GMP 6; magnitudes < 2^126',
    'GMP string parsing / radix handling / get_str are NOT verified: the integer denoted by the string is an input of the contract (rule E-gmp)',
    'CBMC 6.11.0 C++ front end (incl. its __int128 support), goto-instrument dfcc, cadical; extraction rules under coverage.extraction',
    'mathematical step for big integers: r == +-T(hi,lo) + k*p with T congruent to the magnitude (C01 lemma_reduce_congruence)',
]
ASSUMPTIONS = ['|x| < 2^126 for fromScalar / fromString (machine model of mpz_class); larger magnitudes are not covered',
               'toString / radix output is GMP get_str and is not covered']
EXPLANATION = ('Integer conversions and predicates are proved for every uint64/int64/int32 value and every element representation; the mpz_class '
               'functions keep their real bodies with mpz_class bound to a 128-bit integer (assumed-contract proof).')
MANIFEST_ENTRY = dict(
    category='proof',
    technique='CBMC code contracts on the real conversion functions; GMP modelled by assumed contracts (128-bit integer)',
    text='fromU64/fromS64/fromS32/toU64, equal/isZero/isOne/isNegone and the three integer round trips are proved for all inputs; toS64/toS32/fromScalar/fromString(arithmetic) are proved for all element values and all integers of magnitude < 2^126 under assumed GMP contracts.',
    note='GMP is an assumed dependency: string parsing, radix handling and get_str are not verified; magnitudes >= 2^126 not covered.')
