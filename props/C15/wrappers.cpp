// C15 wrappers: conversions and predicates.  Integers cross the extern "C" boundary as scalars; a big integer is passed as
// (neg, mag_hi, mag_lo) = sign and 128-bit magnitude.
#include "goldilocks_base_field.hpp"
#include "vf_wrap.h"
typedef Goldilocks::Element E;

#ifdef VF_NATIVE
static mpz_class mk_mpz(int neg, uint64_t hi, uint64_t lo)
{ mpz_class v; mpz_import(v.get_mpz_t(), 1, 1, 8, 0, 0, &hi); v <<= 64; mpz_class l; mpz_import(l.get_mpz_t(), 1, 1, 8, 0, 0, &lo); v += l; if (neg) v = -v; return v; }
#else
static mpz_class mk_mpz(int neg, uint64_t hi, uint64_t lo)
{ mpz_class v = (mpz_class)((((unsigned __int128)hi) << 64) | (unsigned __int128)lo); if (neg) v = -v; return v; }
// E-gmp: the string -> integer parse of GMP is not verified; the parsed integer is whatever the caller says the string denotes
extern "C" { extern int vf_parsed_neg; extern uint64_t vf_parsed_hi, vf_parsed_lo; }
mpz_class vf_mpz_parse(const std::string &, int) { return mk_mpz(vf_parsed_neg, vf_parsed_hi, vf_parsed_lo); }
#endif

extern "C" uint64_t c_fromU64_v(uint64_t x) { VF_IN(0, x); return Goldilocks::fromU64(x).fe; }
extern "C" void c_fromU64(uint64_t *out, uint64_t x) { VF_IN(0, x); Goldilocks::fromU64(*(E *)out, x); }
extern "C" uint64_t c_fromS64_v(int64_t x) { VF_IN(0, x); return Goldilocks::fromS64(x).fe; }
extern "C" void c_fromS64(uint64_t *out, int64_t x) { VF_IN(0, x); Goldilocks::fromS64(*(E *)out, x); }
extern "C" uint64_t c_fromS32_v(int32_t x) { VF_IN(0, (int64_t)x); return Goldilocks::fromS32(x).fe; }
extern "C" void c_fromS32(uint64_t *out, int32_t x) { VF_IN(0, (int64_t)x); Goldilocks::fromS32(*(E *)out, x); }
extern "C" uint64_t c_toU64_v(uint64_t e) { VF_IN(0, e); E x = {e}; return Goldilocks::toU64(x); }
extern "C" void c_toU64(uint64_t *out, uint64_t e) { VF_IN(0, e); E x = {e}; Goldilocks::toU64(*out, x); }
extern "C" int c_equal(uint64_t a, uint64_t b) { VF_IN(0, a); VF_IN(1, b); E x = {a}, y = {b}; return Goldilocks::equal(x, y); }
extern "C" int c_op_eq(uint64_t a, uint64_t b) { VF_IN(0, a); VF_IN(1, b); E x = {a}, y = {b}; return x == y; }
extern "C" int c_isZero(uint64_t a) { VF_IN(0, a); E x = {a}; return Goldilocks::isZero(x); }
extern "C" int c_isOne(uint64_t a) { VF_IN(0, a); E x = {a}; return Goldilocks::isOne(x); }
extern "C" int c_isNegone(uint64_t a) { VF_IN(0, a); E x = {a}; return Goldilocks::isNegone(x); }
// named constants (also justifies rule E-init's literal rewriting of zero()/one())
extern "C" void c_consts(uint64_t *out) { out[0] = Goldilocks::zero().fe; out[1] = Goldilocks::one().fe; out[2] = Goldilocks::negone().fe; out[3] = Goldilocks::shift().fe;
  E z, o, n, s; Goldilocks::zero(z); Goldilocks::one(o); Goldilocks::negone(n); Goldilocks::shift(s); out[4] = z.fe; out[5] = o.fe; out[6] = n.fe; out[7] = s.fe; }

// outward signed conversions (GMP inside)
extern "C" int64_t c_toS64_v(uint64_t e) { VF_IN(0, e); E x = {e}; return Goldilocks::toS64(x); }
extern "C" void c_toS64(int64_t *out, uint64_t e) { VF_IN(0, e); E x = {e}; Goldilocks::toS64(*out, x); }
extern "C" int c_toS32(int32_t *out, uint64_t e) { VF_IN(0, e); E x = {e}; return Goldilocks::toS32(*out, x); }
// inward big-integer conversions
extern "C" uint64_t c_fromScalar_v(int neg, uint64_t hi, uint64_t lo) { VF_IN(0, neg); VF_IN(1, hi); VF_IN(2, lo); mpz_class v = mk_mpz(neg, hi, lo); return Goldilocks::fromScalar(v).fe; }
extern "C" void c_fromScalar(uint64_t *out, int neg, uint64_t hi, uint64_t lo) { VF_IN(0, neg); VF_IN(1, hi); VF_IN(2, lo); mpz_class v = mk_mpz(neg, hi, lo); Goldilocks::fromScalar(*(E *)out, v); }
extern "C" void c_fromString(uint64_t *out, int neg, uint64_t hi, uint64_t lo, int radix)
{
  VF_IN(0, neg); VF_IN(1, hi); VF_IN(2, lo); VF_IN(3, radix);
#ifdef VF_NATIVE
  std::string s = mk_mpz(neg, hi, lo).get_str(radix);
#else
  vf_parsed_neg = neg; vf_parsed_hi = hi; vf_parsed_lo = lo; std::string s;
#endif
  Goldilocks::fromString(*(E *)out, s, radix);
}
extern "C" uint64_t c_fromString_v(int neg, uint64_t hi, uint64_t lo, int radix)
{
  VF_IN(0, neg); VF_IN(1, hi); VF_IN(2, lo); VF_IN(3, radix);
#ifdef VF_NATIVE
  std::string s = mk_mpz(neg, hi, lo).get_str(radix);
#else
  vf_parsed_neg = neg; vf_parsed_hi = hi; vf_parsed_lo = lo; std::string s;
#endif
  return Goldilocks::fromString(s, radix).fe;
}
// round trips
extern "C" uint64_t c_rt_u64(uint64_t x) { VF_IN(0, x); return Goldilocks::toU64(Goldilocks::fromU64(x)); }
extern "C" int64_t c_rt_s64(int64_t x) { VF_IN(0, x); return Goldilocks::toS64(Goldilocks::fromS64(x)); }
extern "C" int c_rt_s32(int32_t *out, int32_t x) { VF_IN(0, (int64_t)x); return Goldilocks::toS32(*out, Goldilocks::fromS32(x)); }
