// C01 native oracle: runs the real scalar ops through the proof's wrappers and compares with __int128 arithmetic.
#include <cstdint>
#include <cstdio>
#include <map>
#include <string>
#include "../../replay/ref.h"
typedef std::map<std::string, uint64_t> vf_inputs;
extern "C" {
#define DECL_BIN(op) void w_##op(uint64_t*, const uint64_t*, const uint64_t*); void w_##op##_oa(uint64_t*, const uint64_t*); \
  void w_##op##_ob(uint64_t*, const uint64_t*); void w_##op##_ab(uint64_t*, const uint64_t*); void w_##op##_oab(uint64_t*); uint64_t w_##op##_v(uint64_t, uint64_t);
DECL_BIN(add) DECL_BIN(sub) DECL_BIN(mul)
#define DECL_UN(op) void w_##op(uint64_t*, const uint64_t*); void w_##op##_oa(uint64_t*); uint64_t w_##op##_v(uint64_t);
DECL_UN(square) DECL_UN(neg)
uint64_t w_inc_v(uint64_t); uint64_t w_dec_v(uint64_t);
void w_mulScalar(uint64_t*, const uint64_t*, const uint64_t*); void w_mulScalar_oa(uint64_t*, const uint64_t*);
void w_mulScalar_os(uint64_t*, const uint64_t*); uint64_t w_mulScalar_v(uint64_t, uint64_t);
uint64_t w_op_plus(uint64_t, uint64_t); uint64_t w_op_minus(uint64_t, uint64_t); uint64_t w_op_times(uint64_t, uint64_t); uint64_t w_op_neg(uint64_t);
}
static int verdict(const char *what, uint64_t got, uint64_t want, uint64_t a, uint64_t b)
{
    printf("%s a=%llu b=%llu real code returned %llu (canonical %llu), exact result mod p is %llu\n", what,
           (unsigned long long)a, (unsigned long long)b, (unsigned long long)got, (unsigned long long)ref_canon(got), (unsigned long long)want);
    return ref_canon(got) == want ? 0 : 1;
}
int vf_replay(const std::string &u, vf_inputs &in)
{
    uint64_t a = in["0"], b = in["1"], o = 0, x, y;
    struct { const char *n; uint64_t (*ref)(uint64_t, uint64_t); void (*f)(uint64_t*, const uint64_t*, const uint64_t*);
             void (*oa)(uint64_t*, const uint64_t*); void (*ob)(uint64_t*, const uint64_t*); void (*ab)(uint64_t*, const uint64_t*);
             void (*oab)(uint64_t*); uint64_t (*v)(uint64_t, uint64_t); } bin[] = {
        {"add", ref_add, w_add, w_add_oa, w_add_ob, w_add_ab, w_add_oab, w_add_v},
        {"sub", ref_sub, w_sub, w_sub_oa, w_sub_ob, w_sub_ab, w_sub_oab, w_sub_v},
        {"mul", ref_mul, w_mul, w_mul_oa, w_mul_ob, w_mul_ab, w_mul_oab, w_mul_v}};
    for (auto &t : bin) {
        std::string n = std::string("w_") + t.n;
        if (u == n) { x = a; y = b; t.f(&o, &x, &y); return verdict(u.c_str(), o, t.ref(a, b), a, b); }
        if (u == n + "_oa") { x = a; y = b; t.oa(&x, &y); return verdict(u.c_str(), x, t.ref(a, b), a, b); }
        if (u == n + "_ob") { x = a; y = b; t.ob(&y, &x); return verdict(u.c_str(), y, t.ref(a, b), a, b); }
        if (u == n + "_ab") { x = a; t.ab(&o, &x); return verdict(u.c_str(), o, t.ref(a, a), a, a); }
        if (u == n + "_oab") { x = a; t.oab(&x); return verdict(u.c_str(), x, t.ref(a, a), a, a); }
        if (u == n + "_v") return verdict(u.c_str(), t.v(a, b), t.ref(a, b), a, b);
    }
    if (u == "w_square") { x = a; w_square(&o, &x); return verdict("square", o, ref_mul(a, a), a, a); }
    if (u == "w_square_oa") { x = a; w_square_oa(&x); return verdict("square", x, ref_mul(a, a), a, a); }
    if (u == "w_square_v") return verdict("square", w_square_v(a), ref_mul(a, a), a, a);
    if (u == "w_neg") { x = a; w_neg(&o, &x); return verdict("neg", o, ref_neg(a), a, 0); }
    if (u == "w_neg_oa") { x = a; w_neg_oa(&x); return verdict("neg", x, ref_neg(a), a, 0); }
    if (u == "w_neg_v") return verdict("neg", w_neg_v(a), ref_neg(a), a, 0);
    if (u == "w_inc_v") return verdict("inc", w_inc_v(a), ref_add(a, 1), a, 1);
    if (u == "w_dec_v") return verdict("dec", w_dec_v(a), ref_sub(a, 1), a, 1);
    if (u == "w_mulScalar") { x = a; y = b; w_mulScalar(&o, &x, &y); return verdict("mulScalar", o, ref_mul(a, b), a, b); }
    if (u == "w_mulScalar_oa") { x = a; y = b; w_mulScalar_oa(&x, &y); return verdict("mulScalar", x, ref_mul(a, b), a, b); }
    if (u == "w_mulScalar_os") { x = a; y = b; w_mulScalar_os(&y, &x); return verdict("mulScalar", y, ref_mul(a, b), a, b); }
    if (u == "w_mulScalar_v") return verdict("mulScalar", w_mulScalar_v(a, b), ref_mul(a, b), a, b);
    if (u == "w_op_plus") return verdict("operator+", w_op_plus(a, b), ref_add(a, b), a, b);
    if (u == "w_op_minus") return verdict("operator-", w_op_minus(a, b), ref_sub(a, b), a, b);
    if (u == "w_op_times") return verdict("operator*", w_op_times(a, b), ref_mul(a, b), a, b);
    if (u == "w_op_neg") return verdict("unary operator-", w_op_neg(a), ref_neg(a), a, 0);
    return 3;
}
