"""C01 - scalar field ops are exact mod p on every 64-bit representation (all aliasing patterns)."""
import os, sys
sys.path.insert(0, os.path.dirname(os.path.dirname(os.path.dirname(os.path.abspath(__file__)))))
from vf.driver import Group, Unit
from vf import extract

PROPERTY = 'C01'
LEVEL = 'proof'

GROUPS = {
    'abs': Group('abs', extract.base_filter, cpp=['props/C01/wrappers.cpp'], c=['props/C01/contracts.c']),
    # same contracts with the MUL instruction computing the exact 64x64->128 product: used only to search for a
    # counterexample in terms of real operands after an obligation of the abstract-product unit failed
    'exact': Group('exact', extract.base_filter, cpp=['props/C01/wrappers.cpp'], c=['props/C01/contracts.c'], defines=['VF_EXACT_MUL']),
}

S = 'src/goldilocks_base_field_scalar.hpp'
H = 'src/goldilocks_base_field.hpp'
UNITS = []
for op in ('add', 'sub', 'mul'):
    for pat, desc in (('', 'no aliasing'), ('_oa', 'out==a'), ('_ob', 'out==b'), ('_ab', 'a==b'), ('_oab', 'out==a==b')):
        UNITS.append(Unit('w_%s%s' % (op, pat), 'abs', 'w_%s%s' % (op, pat),
                          functions=['Goldilocks::%s(Element&,const Element&,const Element&) [%s] (%s)' % (op, desc, S)]))
    UNITS.append(Unit('w_%s_v' % op, 'abs', 'w_%s_v' % op, functions=['Goldilocks::%s(const Element&,const Element&) -> Element (%s)' % (op, S)]))
for op in ('square', 'neg'):
    UNITS.append(Unit('w_%s' % op, 'abs', 'w_%s' % op, functions=['Goldilocks::%s(Element&,const Element&) [no aliasing] (%s)' % (op, S)]))
    UNITS.append(Unit('w_%s_oa' % op, 'abs', 'w_%s_oa' % op, functions=['Goldilocks::%s(Element&,const Element&) [out==a] (%s)' % (op, S)]))
    UNITS.append(Unit('w_%s_v' % op, 'abs', 'w_%s_v' % op, functions=['Goldilocks::%s(const Element&) -> Element (%s)' % (op, S)]))
UNITS.append(Unit('w_inc_v', 'abs', 'w_inc_v', functions=['Goldilocks::inc(const Element&) (%s)' % S]))
UNITS.append(Unit('w_dec_v', 'abs', 'w_dec_v', functions=['Goldilocks::dec(const Element&) (%s)' % S]))
for pat, desc in (('', 'no aliasing'), ('_oa', 'out==base'), ('_os', 'out==scalar object')):
    UNITS.append(Unit('w_mulScalar%s' % pat, 'abs', 'w_mulScalar%s' % pat,
                      functions=['Goldilocks::mulScalar(Element&,const Element&,const uint64_t&) [%s] (%s)' % (desc, S)]))
UNITS.append(Unit('w_mulScalar_v', 'abs', 'w_mulScalar_v', functions=['Goldilocks::mulScalar(const Element&,const uint64_t&) -> Element (%s)' % S]))
for n, d in (('plus', 'operator+'), ('minus', 'operator- (binary)'), ('times', 'operator*'), ('neg', 'operator- (unary)')):
    UNITS.append(Unit('w_op_%s' % n, 'abs', 'w_op_%s' % n, functions=['%s on Goldilocks::Element (%s)' % (d, H)]))
for u in UNITS:
    if any(k in u.name for k in ('mul', 'square', 'times')):
        u.cex_unit = Unit(u.name + '__exact', 'exact', u.enforce, functions=u.functions, timeout=90)
UNITS.append(Unit('lemma_reduce_congruence', 'abs', 'lemma_reduce_congruence', functions=['(lemma) hi*2^64+lo == T(hi,lo) + p*(hi_lo + hi_hi*(2^32+1)) over 200-bit integers'],
                  note='arithmetic identity linking the linear witness form of the product postcondition to a*b mod p'))

TRUSTED_BASE = [
    'x86-64 instruction table of vf/asmx86.py (xor, mov, add, sub, adc, cmovc, jnc, rol, mul) incl. GCC operand semantics; guarded natively by tools/asm_guard (translation validation on boundary operands), not proved',
    'MUL r/m64 delivers rdx:rax = rax*src exactly (the proof treats the 128-bit product as an arbitrary pair (hi,lo) and proves the reduction for all pairs)',
    'mathematical step: r == T + k*p and hi*2^64+lo == T + p*m  ==>  canon(r) == (a*b) mod p  (uniqueness of the residue in [0,p)); lemma_reduce_congruence is machine-checked, the final modus ponens is by inspection',
    'CBMC 6.11.0 C++ front end, goto-instrument dfcc, cadical',
    'extraction rules E-config/E-drop/E-asm/E-misc/E-init listed under coverage.extraction',
    'const objects of static storage (CQ, TWO32, ONE, ZERO ...) keep their initialiser (excluded from dfcc static havoc because they are declared const)',
]
ASSUMPTIONS = [
    'build configuration USE_MONTGOMERY==0, GOLDILOCKS_DEBUG==0 (checked by rule E-config on every run)',
    'registers not named as operands hold arbitrary values at the start of each asm block',
]
EXPLANATION = ('Every unit enforces a contract on an extern "C" marshalling wrapper around the real function compiled from the '
               'filtered /repo/src; operands are fully symbolic 64-bit values, so the result covers all 2^128 operand pairs and '
               'each aliasing pattern.  Postconditions mention operands only through canon(.), which is the residue-class claim.')
MANIFEST_ENTRY = dict(
    category='proof',
    technique='CBMC code contracts (dfcc) on the real scalar functions; inline asm transliterated through an instruction table',
    text='Every overload of add/sub/mul/square/neg/inc/dec/mulScalar and the operators is verified against a functional postcondition for all 64-bit operand values and all aliasing patterns (35 units, full domain, no bound). The product is proved in linear witness form for every 128-bit (hi,lo) pair plus a machine-checked congruence lemma.',
    note='Trusted: the 9-entry x86 instruction table and GCC operand semantics (guarded by native translation validation), the exactness of the MUL instruction, CBMC/cadical, extraction rules; build configuration USE_MONTGOMERY==0.')

LEMMAS = ['reduce_congruence', 'canon_unique']
def extra_checks(rn, tier, ginfos):
    from vf import lean
    import os, json
    r = lean.check_lemmas(LEMMAS)
    if r.get('lean_failed'):
        path = os.path.join(os.environ.get('VF_REPLAY_DIR', os.path.join(os.path.dirname(os.path.dirname(os.path.dirname(os.path.abspath(__file__)))), 'replay', 'out')), PROPERTY)
        os.makedirs(path, exist_ok=True)
        f = os.path.join(path, 'lean-lemmas.json')
        json.dump(dict(property=PROPERTY, obligation='Lean lemmas ' + ', '.join(LEMMAS), verifier_output=r.get('lean_output', '')), open(f, 'w'), indent=1)
        r['violations'] = ['VIOLATION property=%s replay=%s [Lean lemma no longer accepted] no-failing-input-found' % (PROPERTY, f)]
    return r
