// C01 wrappers: extern "C" marshalling into the real (filtered) Goldilocks scalar functions.
// Nothing here computes: each wrapper only builds references to the caller's objects.
#include "goldilocks_base_field.hpp"
#include "vf_wrap.h"
typedef Goldilocks::Element E;
#ifdef VF_NATIVE
#define VF_UNARY_NEG(x) (-(x))
#else
#define VF_UNARY_NEG(x) vf_operator_neg(x) /* E-misc renames the unary operator- overload */
#endif
#define R(p) (*(E *)(p))
#define CR(p) (*(const E *)(p))

// binary reference-taking ops: five aliasing patterns each
#define BIN(op) \
extern "C" void w_##op(uint64_t *out, const uint64_t *a, const uint64_t *b) { VF_IN(0, *a); VF_IN(1, *b); Goldilocks::op(R(out), CR(a), CR(b)); } \
extern "C" void w_##op##_oa(uint64_t *oa, const uint64_t *b) { VF_IN(0, *oa); VF_IN(1, *b); Goldilocks::op(R(oa), CR(oa), CR(b)); } \
extern "C" void w_##op##_ob(uint64_t *ob, const uint64_t *a) { VF_IN(0, *a); VF_IN(1, *ob); Goldilocks::op(R(ob), CR(a), CR(ob)); } \
extern "C" void w_##op##_ab(uint64_t *out, const uint64_t *ab) { VF_IN(0, *ab); VF_IN(1, *ab); Goldilocks::op(R(out), CR(ab), CR(ab)); } \
extern "C" void w_##op##_oab(uint64_t *oab) { VF_IN(0, *oab); VF_IN(1, *oab); Goldilocks::op(R(oab), CR(oab), CR(oab)); } \
extern "C" uint64_t w_##op##_v(uint64_t a, uint64_t b) { VF_IN(0, a); VF_IN(1, b); E x = {a}, y = {b}; return Goldilocks::op(x, y).fe; }
BIN(add)
BIN(sub)
BIN(mul)

// unary reference-taking ops: two aliasing patterns
#define UN(op) \
extern "C" void w_##op(uint64_t *out, const uint64_t *a) { VF_IN(0, *a); Goldilocks::op(R(out), CR(a)); } \
extern "C" void w_##op##_oa(uint64_t *oa) { VF_IN(0, *oa); Goldilocks::op(R(oa), CR(oa)); } \
extern "C" uint64_t w_##op##_v(uint64_t a) { VF_IN(0, a); E x = {a}; return Goldilocks::op(x).fe; }
UN(square)
UN(neg)

extern "C" uint64_t w_inc_v(uint64_t a) { VF_IN(0, a); E x = {a}; return Goldilocks::inc(x).fe; }
extern "C" uint64_t w_dec_v(uint64_t a) { VF_IN(0, a); E x = {a}; return Goldilocks::dec(x).fe; }

extern "C" void w_mulScalar(uint64_t *out, const uint64_t *a, const uint64_t *s) { VF_IN(0, *a); VF_IN(1, *s); Goldilocks::mulScalar(R(out), CR(a), *s); }
extern "C" void w_mulScalar_oa(uint64_t *oa, const uint64_t *s) { VF_IN(0, *oa); VF_IN(1, *s); Goldilocks::mulScalar(R(oa), CR(oa), *s); }
extern "C" void w_mulScalar_os(uint64_t *os, const uint64_t *a) { VF_IN(0, *a); VF_IN(1, *os); Goldilocks::mulScalar(R(os), CR(a), *os); }
extern "C" uint64_t w_mulScalar_v(uint64_t a, uint64_t s) { VF_IN(0, a); VF_IN(1, s); E x = {a}; return Goldilocks::mulScalar(x, s).fe; }

// operators
extern "C" uint64_t w_op_plus(uint64_t a, uint64_t b) { VF_IN(0, a); VF_IN(1, b); E x = {a}, y = {b}; return (x + y).fe; }
extern "C" uint64_t w_op_minus(uint64_t a, uint64_t b) { VF_IN(0, a); VF_IN(1, b); E x = {a}, y = {b}; return (x - y).fe; }
extern "C" uint64_t w_op_times(uint64_t a, uint64_t b) { VF_IN(0, a); VF_IN(1, b); E x = {a}, y = {b}; return (x * y).fe; }
extern "C" uint64_t w_op_neg(uint64_t a) { VF_IN(0, a); E x = {a}; return VF_UNARY_NEG(x).fe; }
