/* C01 contracts: scalar field ops are exact mod p on every 64-bit representation.
 * Each w_* symbol is an extern "C" marshalling wrapper (props/C01/wrappers.cpp) around the real function. */
#include "spec.h"
#define VF_SENTINEL __CPROVER_assert(0, "vf_sentinel: harness reaches the point after the call")

/* ---- the MUL instruction (E-asm): abstract product.  The pair (g_hi,g_lo) is arbitrary; the operands that
 * reached the instruction are recorded so the contract can state they are the function's operands. */
u64 g_hi, g_lo, g_in1, g_in2;
unsigned g_mulcount;
#ifdef VF_EXACT_MUL
void vf_x86_mul64(u64 *rax, u64 *rdx, u64 src) { g_in1 = *rax; g_in2 = src; u128 pr = (u128)*rax * (u128)src; g_lo = (u64)pr; g_hi = (u64)(pr >> 64); *rax = g_lo; *rdx = g_hi; g_mulcount++; }
#else
void vf_x86_mul64(u64 *rax, u64 *rdx, u64 src) { g_in1 = *rax; g_in2 = src; *rax = g_lo; *rdx = g_hi; g_mulcount++; }
#endif

#ifdef VF_EXACT_MUL
#define GHOST g_in1, g_in2, g_mulcount, g_hi, g_lo
#else
#define GHOST g_in1, g_in2, g_mulcount
#endif
#define FRESH(p) __CPROVER_is_fresh(p, 8)
#define ADDPOST(o, a, b) (canon(o) == addmod(canon(a), canon(b)))
#define SUBPOST(o, a, b) (canon(o) == submod(canon(a), canon(b)))
/* product postcondition: the output is a representation of the residue of the 128-bit product hi:lo that the MUL
 * instruction delivered for exactly the operands (a,b) (in either order): out = T(hi,lo) + k*p, k in {1,0,-1,-2}.
 * Together with lemma reduce_congruence (hi*2^64+lo = T + p*(...)) this is canon(out) = a*b mod p. */
#define MULPOST(o, a, b) (g_mulcount == (unsigned)(__CPROVER_old(g_mulcount) + 1u) && ((g_in1 == (a) && g_in2 == (b)) || (g_in1 == (b) && g_in2 == (a))) && repr_of_T(o, redT(g_hi, g_lo)))

#define BINCONTRACTS(op, POST) \
void w_##op(u64 *out, const u64 *a, const u64 *b) \
  __CPROVER_requires(FRESH(out) && FRESH(a) && FRESH(b)) __CPROVER_assigns(*out, GHOST) \
  __CPROVER_ensures(POST(*out, *a, *b)) __CPROVER_ensures(*a == __CPROVER_old(*a) && *b == __CPROVER_old(*b)); \
void w_##op##_oa(u64 *oa, const u64 *b) \
  __CPROVER_requires(FRESH(oa) && FRESH(b)) __CPROVER_assigns(*oa, GHOST) \
  __CPROVER_ensures(POST(*oa, __CPROVER_old(*oa), *b)); \
void w_##op##_ob(u64 *ob, const u64 *a) \
  __CPROVER_requires(FRESH(ob) && FRESH(a)) __CPROVER_assigns(*ob, GHOST) \
  __CPROVER_ensures(POST(*ob, *a, __CPROVER_old(*ob))); \
void w_##op##_ab(u64 *out, const u64 *ab) \
  __CPROVER_requires(FRESH(out) && FRESH(ab)) __CPROVER_assigns(*out, GHOST) \
  __CPROVER_ensures(POST(*out, *ab, *ab)); \
void w_##op##_oab(u64 *oab) \
  __CPROVER_requires(FRESH(oab)) __CPROVER_assigns(*oab, GHOST) \
  __CPROVER_ensures(POST(*oab, __CPROVER_old(*oab), __CPROVER_old(*oab))); \
u64 w_##op##_v(u64 a, u64 b) \
  __CPROVER_assigns(GHOST) __CPROVER_ensures(POST(__CPROVER_return_value, a, b)); \
void h_w_##op(void) { u64 *o, *a, *b; w_##op(o, a, b); VF_SENTINEL; } \
void h_w_##op##_oa(void) { u64 *o, *b; w_##op##_oa(o, b); VF_SENTINEL; } \
void h_w_##op##_ob(void) { u64 *o, *a; w_##op##_ob(o, a); VF_SENTINEL; } \
void h_w_##op##_ab(void) { u64 *o, *a; w_##op##_ab(o, a); VF_SENTINEL; } \
void h_w_##op##_oab(void) { u64 *o; w_##op##_oab(o); VF_SENTINEL; } \
void h_w_##op##_v(void) { u64 a, b; w_##op##_v(a, b); VF_SENTINEL; }

BINCONTRACTS(add, ADDPOST)
BINCONTRACTS(sub, SUBPOST)
BINCONTRACTS(mul, MULPOST)

#define NEGPOST(o, a) (canon(o) == negmod(canon(a)))
#define SQPOST(o, a) MULPOST(o, a, a)
#define UNCONTRACTS(op, POST) \
void w_##op(u64 *out, const u64 *a) \
  __CPROVER_requires(FRESH(out) && FRESH(a)) __CPROVER_assigns(*out, GHOST) \
  __CPROVER_ensures(POST(*out, *a)) __CPROVER_ensures(*a == __CPROVER_old(*a)); \
void w_##op##_oa(u64 *oa) \
  __CPROVER_requires(FRESH(oa)) __CPROVER_assigns(*oa, GHOST) \
  __CPROVER_ensures(POST(*oa, __CPROVER_old(*oa))); \
u64 w_##op##_v(u64 a) __CPROVER_assigns(GHOST) __CPROVER_ensures(POST(__CPROVER_return_value, a)); \
void h_w_##op(void) { u64 *o, *a; w_##op(o, a); VF_SENTINEL; } \
void h_w_##op##_oa(void) { u64 *o; w_##op##_oa(o); VF_SENTINEL; } \
void h_w_##op##_v(void) { u64 a; w_##op##_v(a); VF_SENTINEL; }
UNCONTRACTS(square, SQPOST)
UNCONTRACTS(neg, NEGPOST)

u64 w_inc_v(u64 a) __CPROVER_assigns() __CPROVER_ensures(canon(__CPROVER_return_value) == addmod(canon(a), 1));
u64 w_dec_v(u64 a) __CPROVER_assigns() __CPROVER_ensures(canon(__CPROVER_return_value) == submod(canon(a), 1));
void h_w_inc_v(void) { u64 a; w_inc_v(a); VF_SENTINEL; }
void h_w_dec_v(void) { u64 a; w_dec_v(a); VF_SENTINEL; }

/* mulScalar(result, base, scalar): the 64-bit scalar is used as a representation (any value, also >= p) */
void w_mulScalar(u64 *out, const u64 *a, const u64 *s)
  __CPROVER_requires(FRESH(out) && FRESH(a) && FRESH(s)) __CPROVER_assigns(*out, GHOST)
  __CPROVER_ensures(MULPOST(*out, *a, *s)) __CPROVER_ensures(*a == __CPROVER_old(*a) && *s == __CPROVER_old(*s));
void w_mulScalar_oa(u64 *oa, const u64 *s)
  __CPROVER_requires(FRESH(oa) && FRESH(s)) __CPROVER_assigns(*oa, GHOST)
  __CPROVER_ensures(MULPOST(*oa, __CPROVER_old(*oa), *s));
void w_mulScalar_os(u64 *os, const u64 *a)
  __CPROVER_requires(FRESH(os) && FRESH(a)) __CPROVER_assigns(*os, GHOST)
  __CPROVER_ensures(MULPOST(*os, *a, __CPROVER_old(*os)));
u64 w_mulScalar_v(u64 a, u64 s) __CPROVER_assigns(GHOST) __CPROVER_ensures(MULPOST(__CPROVER_return_value, a, s));
void h_w_mulScalar(void) { u64 *o, *a, *s; w_mulScalar(o, a, s); VF_SENTINEL; }
void h_w_mulScalar_oa(void) { u64 *o, *s; w_mulScalar_oa(o, s); VF_SENTINEL; }
void h_w_mulScalar_os(void) { u64 *o, *a; w_mulScalar_os(o, a); VF_SENTINEL; }
void h_w_mulScalar_v(void) { u64 a, s; w_mulScalar_v(a, s); VF_SENTINEL; }

u64 w_op_plus(u64 a, u64 b) __CPROVER_assigns() __CPROVER_ensures(ADDPOST(__CPROVER_return_value, a, b));
u64 w_op_minus(u64 a, u64 b) __CPROVER_assigns() __CPROVER_ensures(SUBPOST(__CPROVER_return_value, a, b));
u64 w_op_times(u64 a, u64 b) __CPROVER_assigns(GHOST) __CPROVER_ensures(MULPOST(__CPROVER_return_value, a, b));
u64 w_op_neg(u64 a) __CPROVER_assigns() __CPROVER_ensures(NEGPOST(__CPROVER_return_value, a));
void h_w_op_plus(void) { u64 a, b; w_op_plus(a, b); VF_SENTINEL; }
void h_w_op_minus(void) { u64 a, b; w_op_minus(a, b); VF_SENTINEL; }
void h_w_op_times(void) { u64 a, b; w_op_times(a, b); VF_SENTINEL; }
void h_w_op_neg(void) { u64 a; w_op_neg(a); VF_SENTINEL; }

/* registers hold arbitrary values when an asm block starts */
u64 vf_nondet_u64(void) { u64 x; return x; }
_Bool vf_nondet_bool(void) { _Bool x; return x; }

/* lemma: the reduction target is congruent to the 128-bit value:  hi*2^64 + lo == T + p*(hl + hh*(2^32+1)),
 * proved over 200-bit integers with shifts and adds only (no multiplier reaches the solver).  T is the same expression
 * as redT() in spec.h (offset by 2^190 so every intermediate is non-negative). */
typedef unsigned __CPROVER_bitvector[200] big_t;
#define BIGP(x) (((x) << 64) - ((x) << 32) + (x))            /* x * p          */
#define BIG2_32P1(x) (((x) << 32) + (x))                     /* x * (2^32 + 1) */
int lemma_reduce_congruence(u64 hi, u64 lo)
  __CPROVER_assigns()
  __CPROVER_ensures(__CPROVER_return_value == 1)
{
  big_t HI = hi, LO = lo, hl = hi & 0xFFFFFFFFUL, hh = hi >> 32;
  big_t off = (big_t)1 << 190;
  big_t T = off + LO + ((hl << 32) - hl) - hh;
  big_t m = hl + BIG2_32P1(hh);
  s128 t128 = redT(hi, lo);                                   /* and it is the spec.h expression: compare the low 128 bits */
  return (off + (HI << 64) + LO) == T + BIGP(m) && (u128)t128 == (u128)T;
}
void h_lemma_reduce_congruence(void) { u64 hi, lo; lemma_reduce_congruence(hi, lo); VF_SENTINEL; }
