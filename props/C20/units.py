"""C20 - GPU field arithmetic and tables implement the same field as the CPU (no device here: transliterated PTX)."""
import os, sys, re
sys.path.insert(0, os.path.dirname(os.path.dirname(os.path.dirname(os.path.abspath(__file__)))))
from vf.driver import Group, Unit
from vf import extract, ptx

PROPERTY = 'C20'
LEVEL = 'proof'
G = 'gl64_t.cuh'
METHODS = [  # (C name, signature regex in class gl64_t, C parameter list, tail statements)
    ('gl_add', r'inline gl64_t& operator\+=\(const gl64_t& b\)', 'uint64_t *val, uint64_t b'),
    ('gl_sub', r'inline gl64_t& operator-=\(const gl64_t& b\)', 'uint64_t *val, uint64_t b'),
    ('gl_cneg', r'inline gl64_t& cneg\(bool flag\)', 'uint64_t *val, _Bool flag'),
    ('gl_mulraw', r'inline void mul\(const gl64_t& b\)', 'uint64_t *val, uint64_t b'),
    ('gl_reduce4', r'inline void reduce\(uint32_t temp\[4\]\)', 'uint64_t *val, uint32_t *temp'),
    ('gl_mul32raw', r'inline void mul\(uint32_t b\)', 'uint64_t *val, uint32_t b'),
    ('gl_reduce', r'inline void reduce\(\)', 'uint64_t *val'),
]
def gen_for(f, arch, partial):
    src = f.files[G]
    defs = {'__USE_CUDA__': 1, '__CUDA_ARCH__': arch, '__GNUC__': 1}
    if partial:
        defs['GL64_PARTIALLY_REDUCED'] = 1
    text = ptx.resolve_pp(src, defs)
    sfx = '_%d%s' % (arch, 'p' if partial else '')
    out = ['/* E-ptx: transliterated from %s for __CUDA_ARCH__=%d, GL64_PARTIALLY_REDUCED %s */' % (G, arch, 'defined' if partial else 'undefined')]
    tr = ptx.Ptx()
    protos, bodies = [], []
    for cname, sig, params in METHODS:
        body, line = ptx.cut_method(text, sig)
        for pat, rep in [(r'\bb\.val\b', 'b'), (r'\bb\.lo\(\)', '((uint32_t)(b))'), (r'\bb\.hi\(\)', '((uint32_t)((b) >> 32))'),
                         (r'(?<![\w.])lo\(\)', '((uint32_t)(val))'), (r'(?<![\w.])hi\(\)', '((uint32_t)((val) >> 32))'),
                         (r'\bval\b', '(*val)'), (r'\bMOD\b', 'GL_MOD'), (r'gl64_device::W', '0xffffffffU'),
                         (r'\breturn \*this;', 'return;'), (r'\breduce\(temp\);', 'gl_reduce4%s(val, temp);' % sfx),
                         (r'(?<![\w.])from\(\);', ('gl_reduce%s(val);' % sfx) if partial else '/* from(): nothing in the fully reduced configuration */;'),
                         (r'(?<![\w.])to\(\);', '/* to(): nothing */;' if partial else 'gl_reduce%s(val);' % sfx)]:
            body = re.sub(pat, rep, body)
        try:
            cbody = ptx.translate_body(body, tr)
        except ptx.PtxError as e:
            raise extract.ExtractError('E-ptx: %s (%s line %d): %s' % (cname, G, line, e))
        protos.append('void %s%s(%s);' % (cname, sfx, params))
        bodies.append('/* %s line %d */\nvoid %s%s(%s)\n{ _Bool cf = 0; (void)cf;%s}\n' % (G, line, cname, sfx, params, cbody))
    # operator* = mul + to() ; operator*(uint32) = mul(uint32) + to() ; sqr = mul(*this) + to()
    fin = 'gl_reduce%s(val);' % sfx if not partial else ''
    bodies.append('void gl_mul%s(uint64_t *val, uint64_t b) { gl_mulraw%s(val, b); %s }' % (sfx, sfx, fin))
    bodies.append('void gl_mul32%s(uint64_t *val, uint32_t b) { gl_mul32raw%s(val, b); %s }' % (sfx, sfx, fin))
    bodies.append('void gl_sqr%s(uint64_t *val) { gl_mulraw%s(val, *val); %s }' % (sfx, sfx, fin))
    f.note('E-ptx', G, len(METHODS), 0, 0, 'arch %d partial=%s: %s' % (arch, partial, ', '.join(m[0] for m in METHODS)))
    return '\n'.join(out + protos + bodies) + '\n'
def tables(f):
    src = f.files['ntt_goldilocks.cuh']
    tabs = {}
    for name in ('omegas', 'omegas_inv', 'domain_size_inverse'):
        m = re.search(r'__device__ __constant__ uint64_t %s\[33\] = \{(.*?)\};' % name, src, re.S)
        if not m:
            raise extract.ExtractError('E-ptx: table %s[33] not found in ntt_goldilocks.cuh' % name)
        vals = re.findall(r'(0x[0-9a-fA-F]+|\d+)U?L*', re.sub(r'//[^\n]*', '', m.group(1)))
        if len(vals) != 33:
            raise extract.ExtractError('E-ptx: table %s has %d entries, expected 33' % (name, len(vals)))
        tabs[name] = vals
    cpu = re.findall(r'Goldilocks::fromU64\((0x[0-9a-fA-F]+|\d+)U?L*\)', f.files['goldilocks_base_field.cpp'].split('void Goldilocks::parcpy')[0])[:33]
    if len(cpu) != 33:
        raise extract.ExtractError('E-ptx: CPU table W[33] not found')
    out = ['/* device tables, parsed from ntt_goldilocks.cuh, and the CPU roots W[33] from goldilocks_base_field.cpp */']
    for n, v in list(tabs.items()) + [('cpu_w', cpu)]:
        out.append('static const uint64_t T_%s[33] = {%s};' % (n, ', '.join(x + 'ULL' for x in v)))
    f.note('E-ptx', 'ntt_goldilocks.cuh', 3, 0, 0, 'tables omegas, omegas_inv, domain_size_inverse (33 entries each)')
    return '\n'.join(out) + '\n'
def filt(repo_src, dst):
    f = extract.Filter(repo_src, dst)
    f.check_macros()
    txt = ''
    for arch in (700, 600):
        txt += gen_for(f, arch, False)
    txt += gen_for(f, 700, True) + gen_for(f, 600, True)
    f.files = {'gen_gl64.c': txt, 'gen_tables.c': tables(f)}
    return f
GROUPS = {'ptx': Group('ptx', filt, c=['props/C20/contracts.c'], defines=['VF_MUL32_ABSTRACT'], repo_cpp=[]),
          'ptx_exact': Group('ptx_exact', filt, c=['props/C20/contracts.c'], repo_cpp=[])}
UNITS = []
for arch in (700, 600):
    for fn, d in (('gl_add', 'operator+='), ('gl_sub', 'operator-='), ('gl_cneg', 'cneg / unary minus'), ('gl_reduce', 'reduce() final reduction'),
                  ('gl_mul', 'operator* (mul + reduce(temp) + to)'), ('gl_mul32', 'operator*(uint32_t)'), ('gl_sqr', 'sqr()'), ('gl_reduce4', 'reduce(uint32_t temp[4])')):
        n = '%s_%d' % (fn, arch)
        rep = ['gl_mulraw_%d' % arch, 'gl_reduce_%d' % arch] if fn in ('gl_mul', 'gl_sqr') else []
        UNITS.append(Unit(n, 'ptx', n, replace=rep, functions=['gl64_t::%s, __CUDA_ARCH__ %s 700, fully reduced (src/%s) [PTX transliterated]%s' % (d, '>=' if arch == 700 else '<', G, ' over the contracts of mul/reduce(temp) and reduce()' if rep else '')], timeout=600))
    n = 'gl_mulraw_%d' % arch
    UNITS.append(Unit(n, 'ptx', n, functions=['gl64_t::mul(const gl64_t&) + reduce(uint32_t temp[4]), __CUDA_ARCH__ %s 700 (src/%s) [PTX transliterated]' % ('>=' if arch == 700 else '<', G)], timeout=900))
    for fn, d in (('gl_mul', 'operator* on partially reduced operands'), ('gl_add', 'operator+= partially reduced'), ('gl_sub', 'operator-= partially reduced')):
        n = '%s_%dp' % (fn, arch)
        UNITS.append(Unit(n, 'ptx', n, tier=('thorough' if fn == 'gl_mul' else 'quick'), functions=['gl64_t::%s, __CUDA_ARCH__ %s 700, GL64_PARTIALLY_REDUCED (src/%s) [PTX transliterated]' % (d, '>=' if arch == 700 else '<', G)], timeout=600))
UNITS.append(Unit('tables', 'ptx_exact', 'check_tables', harness='hl_tables', light=True, flags=['--unwind', '34', '--unwinding-assertions'], loops='unwind 34 (33 table rows)',
                  functions=['omegas[33], omegas_inv[33], domain_size_inverse[33] (src/ntt_goldilocks.cuh) vs Goldilocks::W (src/goldilocks_base_field.cpp)'], timeout=600))
TRUSTED_BASE = ['PTX instruction table of vf/ptx.py (carry-flag semantics of add/sub/mad .cc/c variants, setp/selp/predication, mov.b64 pack): written from the PTX ISA text; NO GPU in this sandbox to validate it',
                'nvcc operand semantics of extended asm (inputs read before, outputs written after each statement)',
                '32x32 products uninterpreted with range axioms (exact for the constant factor 2^32-1); lemmas schoolbook, reduce_congruence (Lean)',
                'method bodies are cut by name and rewritten by fixed token rules (val -> *val, lo()/hi(), to()/from() per configuration)']
ASSUMPTIONS = ['fully reduced configuration: operands canonical (as the class maintains); partially reduced: any 64-bit operands', 'counterexamples are replayed on the host compilation of the transliterated C only']
EXPLANATION = 'Device arithmetic proved on the transliterated code for both __CUDA_ARCH__ branches; 99 table obligations evaluated with the transliterated multiplication on constants.'
MANIFEST_ENTRY = dict(category='proof', technique='CBMC code contracts on a per-run mechanical transliteration of the inline PTX (instruction table) of gl64_t.cuh',
    text='operator+=, -=, cneg, operator* (element and 32-bit word), sqr, reduce for __CUDA_ARCH__ >= 700 and < 700: canonical result of the field operation for all canonical operands (products: all 64-bit operands); device tables: 33 roots equal the CPU roots, inverses and 2^-i verified.',
    note='No GPU: the PTX table is trusted from the ISA text and never executed on hardware; cubic-extension .cuh code not covered.')
from vf import lean as _lean
LEMMAS = ['schoolbook', 'reduce_congruence']
def extra_checks(rn, tier, ginfos):
    return _lean.check_lemmas(LEMMAS)
