/* C20 contracts: the device field type gl64_t on the transliterated PTX (src/gen_gl64.c in the scratch copy). */
#include "spec.h"
#define VF_SENTINEL __CPROVER_assert(0, "vf_sentinel: harness reaches the point after the call")
typedef unsigned long uint64_t;
typedef unsigned int uint32_t;
#define GL_MOD 0xffffffff00000001UL
#ifdef VF_MUL32_ABSTRACT
u64 __CPROVER_uninterpreted_mul32(u32, u32);
static inline u64 vf_mul32(u32 a, u32 b)
{
  if (b == 0xFFFFFFFFU) return ((u64)a << 32) - a;
  if (a == 0xFFFFFFFFU) return ((u64)b << 32) - b;
  u32 lo = a <= b ? a : b, hi = a <= b ? b : a;
  u64 r = __CPROVER_uninterpreted_mul32(lo, hi);
  __CPROVER_assume(r <= 0xFFFFFFFE00000001UL);   /* AXIOM(mul32-range) */
  __CPROVER_assume(lo != 0 || r == 0);            /* AXIOM(mul32-zero): 0*y == 0 */
  __CPROVER_assume(lo != 1 || r == hi);           /* AXIOM(mul32-one): 1*y == y */
  return r;
}
#else
static inline u64 vf_mul32(u32 a, u32 b) { return (u64)a * (u64)b; }
#endif
#define M32(a, b) vf_mul32(a, b)
#include "gen_gl64.c"
#include "gen_tables.c"

#define LO32(x) ((u32)(x))
#define HI32(x) ((u32)((x) >> 32))
#define school(a, b) ((((u128)M32(HI32(a), HI32(b))) << 64) + ((((u128)M32(HI32(a), LO32(b))) + ((u128)M32(LO32(a), HI32(b)))) << 32) + ((u128)M32(LO32(a), LO32(b))))
#define school32(a, b) ((((u128)M32(HI32(a), b)) << 32) + ((u128)M32(LO32(a), b)))
#define HI64(x) ((u64)((x) >> 64))
#define LO64(x) ((u64)(x))
#define V1(p) __CPROVER_is_fresh(p, 8)

#define ARCH(sfx) \
void gl_add##sfx(u64 *val, u64 b) __CPROVER_requires(V1(val) && *val < GP && b < GP) __CPROVER_assigns(*val) \
  __CPROVER_ensures(*val == addmod(__CPROVER_old(*val), b)); \
void h_gl_add##sfx(void) { u64 *v, b; gl_add##sfx(v, b); VF_SENTINEL; } \
void gl_sub##sfx(u64 *val, u64 b) __CPROVER_requires(V1(val) && *val < GP && b < GP) __CPROVER_assigns(*val) \
  __CPROVER_ensures(*val == submod(__CPROVER_old(*val), b)); \
void h_gl_sub##sfx(void) { u64 *v, b; gl_sub##sfx(v, b); VF_SENTINEL; } \
void gl_cneg##sfx(u64 *val, _Bool flag) __CPROVER_requires(V1(val) && *val < GP) __CPROVER_assigns(*val) \
  __CPROVER_ensures(*val == (flag ? negmod(__CPROVER_old(*val)) : __CPROVER_old(*val))); \
void h_gl_cneg##sfx(void) { u64 *v; _Bool f; gl_cneg##sfx(v, f); VF_SENTINEL; } \
void gl_reduce##sfx(u64 *val) __CPROVER_requires(V1(val)) __CPROVER_assigns(*val) __CPROVER_ensures(*val == canon(__CPROVER_old(*val))); \
void h_gl_reduce##sfx(void) { u64 *v; gl_reduce##sfx(v); VF_SENTINEL; } \
/* raw product (mul + reduce(temp), before the final to()): a representation of the residue, for every 64-bit operand pair */ \
void gl_mulraw##sfx(u64 *val, u64 b) __CPROVER_requires(V1(val)) __CPROVER_assigns(*val) \
  __CPROVER_ensures(repr_of_T(*val, redT(HI64(school(__CPROVER_old(*val), b)), LO64(school(__CPROVER_old(*val), b))))); \
void h_gl_mulraw##sfx(void) { u64 *v, b; gl_mulraw##sfx(v, b); VF_SENTINEL; } \
/* products: every 64-bit operand pair (covers partially reduced multiplicands); result canonical and congruent to the 128-bit product */ \
void gl_mul##sfx(u64 *val, u64 b) __CPROVER_requires(V1(val)) __CPROVER_assigns(*val) \
  __CPROVER_ensures(*val < GP && repr_of_T(*val, redT(HI64(school(__CPROVER_old(*val), b)), LO64(school(__CPROVER_old(*val), b))))); \
void h_gl_mul##sfx(void) { u64 *v, b; gl_mul##sfx(v, b); VF_SENTINEL; } \
void gl_sqr##sfx(u64 *val) __CPROVER_requires(V1(val)) __CPROVER_assigns(*val) \
  __CPROVER_ensures(*val < GP && repr_of_T(*val, redT(HI64(school(__CPROVER_old(*val), __CPROVER_old(*val))), LO64(school(__CPROVER_old(*val), __CPROVER_old(*val)))))); \
void h_gl_sqr##sfx(void) { u64 *v; gl_sqr##sfx(v); VF_SENTINEL; } \
void gl_mul32##sfx(u64 *val, u32 b) __CPROVER_requires(V1(val)) __CPROVER_assigns(*val) \
  __CPROVER_ensures(*val < GP && repr_of_T(*val, redT(HI64(school32(__CPROVER_old(*val), b)), LO64(school32(__CPROVER_old(*val), b))))); \
void h_gl_mul32##sfx(void) { u64 *v; u32 b; gl_mul32##sfx(v, b); VF_SENTINEL; } \
/* reduce(temp): all 128-bit temp values */ \
void gl_reduce4##sfx(u64 *val, u32 *temp) __CPROVER_requires(V1(val) && __CPROVER_is_fresh(temp, 16)) __CPROVER_assigns(*val, __CPROVER_object_whole(temp)) \
  __CPROVER_ensures(repr_of_T(*val, redT(((u64)__CPROVER_old(temp[3]) << 32) | __CPROVER_old(temp[2]), ((u64)__CPROVER_old(temp[1]) << 32) | __CPROVER_old(temp[0])))); \
void h_gl_reduce4##sfx(void) { u64 *v; u32 *t; gl_reduce4##sfx(v, t); VF_SENTINEL; }
ARCH(_700)
ARCH(_600)
/* partially reduced configuration: operands are any 64-bit representations, results are representations (< 2^64) of the exact value */
#define ARCHP(sfx) \
void gl_add##sfx(u64 *val, u64 b) __CPROVER_requires(V1(val)) __CPROVER_assigns(*val) __CPROVER_ensures(canon(*val) == addmod(canon(__CPROVER_old(*val)), canon(b))); \
void h_gl_add##sfx(void) { u64 *v, b; gl_add##sfx(v, b); VF_SENTINEL; } \
void gl_sub##sfx(u64 *val, u64 b) __CPROVER_requires(V1(val)) __CPROVER_assigns(*val) __CPROVER_ensures(canon(*val) == submod(canon(__CPROVER_old(*val)), canon(b))); \
void h_gl_sub##sfx(void) { u64 *v, b; gl_sub##sfx(v, b); VF_SENTINEL; } \
void gl_mul##sfx(u64 *val, u64 b) __CPROVER_requires(V1(val)) __CPROVER_assigns(*val) \
  __CPROVER_ensures(repr_of_T(*val, redT(HI64(school(__CPROVER_old(*val), b)), LO64(school(__CPROVER_old(*val), b))))); \
void h_gl_mul##sfx(void) { u64 *v, b; gl_mul##sfx(v, b); VF_SENTINEL; }
ARCHP(_700p)
ARCHP(_600p)

/* ---- device tables (exact arithmetic, constant-folded): 99 obligations */
static u64 mulmod_exact(u64 a, u64 b) { u64 v = a; gl_mul_700(&v, b); return v; }
void hl_tables(void)
{
  for (int i = 0; i < 33; i++)
  {
    __CPROVER_assert(T_omegas[i] == T_cpu_w[i], "tables.postcondition.1 (light): device root of unity equals the CPU root W[i]");
    __CPROVER_assert(T_omegas[i] < GP && T_omegas_inv[i] < GP && T_domain_size_inverse[i] < GP, "tables.postcondition.2 (light): canonical entries");
    __CPROVER_assert(mulmod_exact(T_omegas[i], T_omegas_inv[i]) == 1, "tables.postcondition.3 (light): omegas_inv[i] * omegas[i] == 1");
    __CPROVER_assert(mulmod_exact(T_domain_size_inverse[i], i < 64 ? (1UL << i) : 0) == 1, "tables.postcondition.4 (light): domain_size_inverse[i] * 2^i == 1");
  }
  VF_SENTINEL;
}
