"""C04 - INTT structure (units shared with C03, see props/C03)."""
import os, sys, re
sys.path.insert(0, os.path.dirname(os.path.dirname(os.path.dirname(os.path.abspath(__file__)))))
from vf.driver import Group, Unit, import_units
PROPERTY = 'C04'
LEVEL = 'proof'
GROUPS, UNITS = {}, []
_g, _u = import_units('C03', lambda n: re.match(r'NTT_iters_schedule$|NTT_butterfly$|INTT_wrapper$|NTT_wrapper@|NTT_noop@|log2$', n))
GROUPS.update(_g); UNITS += _u

TRUSTED_BASE = ['units of props/C03 (M2 C-ification, outlined batch data path, ghost monitors)']
ASSUMPTIONS = ['object domain s <= 32, transform size 2^k with k <= min(s, 30)', 'allocation failure (malloc returning NULL) is not modelled']
EXPLANATION = 'Structural contract of the inverse transform: INTT forwards to NTT with inverse=true (NULL destination = in place, no-op for empty shapes); the scaling by n^-1 (resp. the coset table) happens in the final pass and only there, for every (object size, n, nphase); block split / buffers as for NTT (bounded shapes).'
MANIFEST_ENTRY = dict(category='proof', technique='CBMC on the C-ified INTT / NTT / NTT_iters with ghost monitors (schedule, buffers, scaling placement)', text='Structural contract of the inverse transform: INTT forwards to NTT with inverse=true (NULL destination = in place, no-op for empty shapes); the scaling by n^-1 (resp. the coset table) happens in the final pass and only there, for every (object size, n, nphase); block split / buffers as for NTT (bounded shapes).', note='The equation out = n^-1 * sum in*w^(-jk) and the round trips INTT(NTT(x)) = x are NOT proved by this check (needs induction over a recursive spec + field algebra).')
