"""C12 - parallel regions are race-free; results independent of threads and schedule (footprint contracts; OpenMP model assumed)."""
import os, sys, re
sys.path.insert(0, os.path.dirname(os.path.dirname(os.path.dirname(os.path.abspath(__file__)))))
from vf.driver import Group, Unit, import_units
PROPERTY = 'C12'
LEVEL = 'proof'
GROUPS, UNITS = {}, []
# iteration footprints proved by the monitor units: chunk k of parcpy/parSetZero is [next, next+len) with next advancing (pairwise disjoint);
# merkle leaf i writes exactly slot i and node calls write exactly the watermark slot and read strictly below it
for prop, pred in (('C17', r'parcpy$|parSetZero$'), ('C08', r'merkletree_(batch_)?(seq|avx|avx512)$'), ('C03', r'NTT_wrapper@(2x3|4x2)$|NTT_iters_schedule$|reversePermutation$|NTT_butterfly$'), ('C07', r'linear_hash$')):
    _g, _u = import_units(prop, lambda n, p=pred: re.match(p, n))
    GROUPS.update(_g); UNITS += _u
TRUSTED_BASE = ['ASSUMED: the OpenMP execution model (each iteration of a `parallel for` executed exactly once by some thread, barrier at the end of the loop, num_threads / schedule only choose the assignment) and the C++ memory model; CBMC gives the pragmas sequential meaning - no interleaving is explored',
                'footprints are taken from the ghost monitors of the imported units (writes of iteration k form a window that advances monotonically; reads lie below the write watermark or in read-only inputs)']
ASSUMPTIONS = ['reversePermutation: iteration i writes exactly row i of dst (monitor unit, out of place); butterfly group: writes exactly its two rows (bounded unit); that the groups of one pass are pairwise disjoint across i and b is NOT under contract (it is the index structure of the DFT): listed as not covered']
EXPLANATION = ('Race freedom is reduced to pairwise disjointness of iteration footprints, which the monitor units establish for parcpy/parSetZero (chunks), the Merkle leaf and level loops (write-once tree, reads below the watermark) '
               'and the NTT block scatter; with the assumed OpenMP semantics the result equals the sequential one for every team size and order.')
MANIFEST_ENTRY = dict(category='proof', technique='reduction of race freedom to iteration-footprint contracts proved by ghost-monitor units (sequential semantics); OpenMP execution model assumed',
    text='For parcpy/parSetZero (all sizes, all int thread counts - the only place where the thread-count argument changes sequential behaviour), the Merkle builders (all heights) and the NTT block scatter (bounded shapes): iteration k writes a window disjoint from every other iteration and reads only read-only inputs or data written before the loop.',
    note='No interleaving is explored: the OpenMP execution and memory model are assumed. NTT butterfly batches / reversePermutation footprints are not under contract (not covered).')
