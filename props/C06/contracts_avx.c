/* C06 vector helpers of the AVX2 / AVX-512 permutations + table facts they rely on.
 * (the top-level AVX permutations are not under contract; see units.py) */
#include "spec.h"
#define VF_SENTINEL __CPROVER_assert(0, "vf_sentinel: harness reaches the point after the call")
#define BSMALL 0xFFFFFFFF00000000UL
u64 vf_nondet_u64(void) { u64 x; return x; }
_Bool vf_nondet_bool(void) { _Bool x; return x; }
void vf_x86_mul64(u64 *rax, u64 *rdx, u64 src) { __CPROVER_assert(0, "no scalar mul here"); }
const u64 *vf_tab_C(void); const u64 *vf_tab_M_(void); const u64 *vf_tab_M(void); const u64 *vf_tab_P_(void); const u64 *vf_tab_P(void);
/* mult kernels by contract (C02 / C11); square(a) is the same product term with b = a */
#define PM(i) (canon(c[i]) == MUL(a[i], b[i]) && MULC(a[i], b[i]))
void k_mult_avx(u64 *c, const u64 *a, const u64 *b) __CPROVER_requires(__CPROVER_is_fresh(c, 32) && __CPROVER_r_ok(a, 32) && __CPROVER_r_ok(b, 32)) __CPROVER_assigns(__CPROVER_object_whole(c))
  __CPROVER_ensures(PM(0) && PM(1) && PM(2) && PM(3));
void k_mult_avx512(u64 *c, const u64 *a, const u64 *b) __CPROVER_requires(__CPROVER_is_fresh(c, 64) && __CPROVER_r_ok(a, 64) && __CPROVER_r_ok(b, 64)) __CPROVER_assigns(__CPROVER_object_whole(c))
  __CPROVER_ensures(PM(0) && PM(1) && PM(2) && PM(3) && PM(4) && PM(5) && PM(6) && PM(7));
#define X7(x) MULK(MULK(MULK(x, x), x), MULK(MULK(x, x), MULK(x, x)))     /* x3 = x2*x ; x4 = x2*x2 ; x7 = x3*x4 (order as in pow7_avx) */
#define W VF_W   /* lanes per register: 4 (AVX2) or 8 (AVX-512) */
#define VW(p) __CPROVER_is_fresh(p, 8 * W)
#if W == 4
#define ALLW(F, s, k) (F(s, k, 0) && F(s, k, 1) && F(s, k, 2) && F(s, k, 3))
#define SFX(n) n##_avx
#else
#define ALLW(F, s, k) (F(s, k, 0) && F(s, k, 1) && F(s, k, 2) && F(s, k, 3) && F(s, k, 4) && F(s, k, 5) && F(s, k, 6) && F(s, k, 7))
#define SFX(n) n##_avx512
#endif
#define ALL3(F) (ALLW(F, s0, 0) && ALLW(F, s1, 4) && ALLW(F, s2, 8))
/* lane i of register k carries state element k*4 + (i mod 4) (AVX-512: of the state i / 4) : constant index 4k + (i & 3) */
#define P_ADD(s, k, i) (canon(s[i]) == addmod(canon(__CPROVER_old(s[i])), canon(c[(k) + ((i) & 3)])))
#define R_SMALL (c[0] <= BSMALL && c[1] <= BSMALL && c[2] <= BSMALL && c[3] <= BSMALL && c[4] <= BSMALL && c[5] <= BSMALL && c[6] <= BSMALL && c[7] <= BSMALL && c[8] <= BSMALL && c[9] <= BSMALL && c[10] <= BSMALL && c[11] <= BSMALL)
#define R_CANON (c[0] < GP && c[1] < GP && c[2] < GP && c[3] < GP && c[4] < GP && c[5] < GP && c[6] < GP && c[7] < GP && c[8] < GP && c[9] < GP && c[10] < GP && c[11] < GP)
#define ADDC_(name, REQ) void q_##name(u64 *s0, u64 *s1, u64 *s2, const u64 *c) \
  __CPROVER_requires(VW(s0) && VW(s1) && VW(s2) && __CPROVER_is_fresh(c, 96) && (REQ)) __CPROVER_assigns(__CPROVER_object_whole(s0), __CPROVER_object_whole(s1), __CPROVER_object_whole(s2)) \
  __CPROVER_ensures(ALL3(P_ADD)); \
  void h_q_##name(void) { u64 *a, *b, *d, *c; q_##name(a, b, d, c); VF_SENTINEL; }
#if W == 4
ADDC_(add_avx, 1)
ADDC_(add_avx_a, 1)
ADDC_(add_avx_small, R_SMALL)
#else
ADDC_(add_avx512, 1)
ADDC_(add_avx512_small, R_CANON)
#endif
#define P_P7(s, k, i) (canon(s[i]) == X7(canon(__CPROVER_old(s[i]))))
#if W == 4
void q_pow7_avx(u64 *s0, u64 *s1, u64 *s2)
#else
void q_pow7_avx512(u64 *s0, u64 *s1, u64 *s2)
#endif
  __CPROVER_requires(VW(s0) && VW(s1) && VW(s2)) __CPROVER_assigns(__CPROVER_object_whole(s0), __CPROVER_object_whole(s1), __CPROVER_object_whole(s2))
  __CPROVER_ensures(ALL3(P_P7));
#if W == 4
void h_q_pow7_avx(void) { u64 *a, *b, *d; q_pow7_avx(a, b, d); VF_SENTINEL; }
#else
void h_q_pow7_avx512(void) { u64 *a, *b, *d; q_pow7_avx512(a, b, d); VF_SENTINEL; }
#endif
/* ---- table facts the vector permutations rely on (constant-folded over the real tables) */
void hl_tables(void)
{
  const u64 *C = vf_tab_C(), *M_ = vf_tab_M_(), *M = vf_tab_M(), *P_ = vf_tab_P_(), *Pm = vf_tab_P();
  for (int i = 0; i < 118; i++) __CPROVER_assert(C[i] <= BSMALL, "tables.postcondition.1 (light): every round constant is <= 0xFFFFFFFF00000000 (operand assumption of add_avx_small; canonical for add_avx512_small)");
  for (int i = 0; i < 144; i++) __CPROVER_assert(M_[i] < 256, "tables.postcondition.2 (light): every entry of the 8-bit MDS table M_ is below 2^8 (mmult_avx_8 / mmult_avx512_8)");
  for (int r = 0; r < 12; r++) for (int k = 0; k < 12; k++)
  { /* M_ / P_ are the re-layouts of M / P consumed by mmult_avx*: block b = r/4 of 48 entries, row r%4 of 12, entry for lane k%4 of register k/4 */
    __CPROVER_assert(M_[12 * r + k] == M[12 * k + r], "tables.postcondition.3 (light): M_[r][k] == M[k][r] (row r of the vector kernel is column r of the scalar mvp_ matrix)");
    __CPROVER_assert(P_[12 * r + k] == Pm[12 * k + r], "tables.postcondition.4 (light): P_[r][k] == P[k][r]");
  }
  VF_SENTINEL;
}
