// E-callee forwarders for C06
#include "poseidon_goldilocks.hpp"
typedef Goldilocks::Element E;
extern "C" { uint64_t w_mul_v(uint64_t a, uint64_t b); uint64_t w_add_v(uint64_t a, uint64_t b);
  void m_pow7(uint64_t *x); void m_pow7_(uint64_t *x); void m_add_(uint64_t *x, const uint64_t *c); void m_pow7add_(uint64_t *x, const uint64_t *c);
  void m_prod_(uint64_t *x, uint64_t alpha, const uint64_t *c); uint64_t m_dot_(uint64_t *x, const uint64_t *c); void m_mvp_(uint64_t *x, const uint64_t *mat); }
void Goldilocks::mul(Element &result, const Element &in1, const Element &in2) { result.fe = w_mul_v(in1.fe, in2.fe); }
void Goldilocks::add(Element &result, const Element &in1, const Element &in2) { result.fe = w_add_v(in1.fe, in2.fe); }
#ifdef FWD_HELPERS
void PoseidonGoldilocks::pow7(E &x) { m_pow7((uint64_t *)&x); }
void PoseidonGoldilocks::pow7_(E *x) { m_pow7_((uint64_t *)x); }
void PoseidonGoldilocks::add_(E *x, const E C[SPONGE_WIDTH]) { m_add_((uint64_t *)x, (const uint64_t *)C); }
void PoseidonGoldilocks::pow7add_(E *x, const E C[SPONGE_WIDTH]) { m_pow7add_((uint64_t *)x, (const uint64_t *)C); }
void PoseidonGoldilocks::prod_(E *x, const E alpha, const E C[SPONGE_WIDTH]) { m_prod_((uint64_t *)x, alpha.fe, (const uint64_t *)C); }
E PoseidonGoldilocks::dot_(E *x, const E C[SPONGE_WIDTH]) { E r; r.fe = m_dot_((uint64_t *)x, (const uint64_t *)C); return r; }
void PoseidonGoldilocks::mvp_(E *state, const E *mat) { m_mvp_((uint64_t *)state, (const uint64_t *)mat); }
#endif
