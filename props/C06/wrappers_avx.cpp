// C06 wrappers for the vector helpers of the AVX2 / AVX-512 permutations (private static members: -Dprivate=public)
#include "poseidon_goldilocks.hpp"
#include "vf_wrap.h"
typedef Goldilocks::Element E;
#define LD(p) _mm256_loadu_si256((const __m256i *)(p))
#define ST(p, v) _mm256_storeu_si256((__m256i *)(p), (v))
#define H3(name) extern "C" void q_##name(uint64_t *s0, uint64_t *s1, uint64_t *s2, const uint64_t *c) \
  { __m256i v0 = LD(s0), v1 = LD(s1), v2 = LD(s2); PoseidonGoldilocks::name(v0, v1, v2, (const E *)c); ST(s0, v0); ST(s1, v1); ST(s2, v2); }
H3(add_avx)
H3(add_avx_a)
H3(add_avx_small)
extern "C" void q_pow7_avx(uint64_t *s0, uint64_t *s1, uint64_t *s2) { __m256i v0 = LD(s0), v1 = LD(s1), v2 = LD(s2); PoseidonGoldilocks::pow7_avx(v0, v1, v2); ST(s0, v0); ST(s1, v1); ST(s2, v2); }
#ifdef __AVX512__
#define LD8(p) _mm512_loadu_si512((const void *)(p))
#define ST8(p, v) _mm512_storeu_si512((void *)(p), (v))
#define H38(name) extern "C" void q_##name(uint64_t *s0, uint64_t *s1, uint64_t *s2, const uint64_t *c) \
  { __m512i v0 = LD8(s0), v1 = LD8(s1), v2 = LD8(s2); PoseidonGoldilocks::name(v0, v1, v2, (const E *)c); ST8(s0, v0); ST8(s1, v1); ST8(s2, v2); }
H38(add_avx512)
H38(add_avx512_small)
extern "C" void q_pow7_avx512(uint64_t *s0, uint64_t *s1, uint64_t *s2) { __m512i v0 = LD8(s0), v1 = LD8(s1), v2 = LD8(s2); PoseidonGoldilocks::pow7_avx512(v0, v1, v2); ST8(s0, v0); ST8(s1, v1); ST8(s2, v2); }
#endif
extern "C" const uint64_t *vf_tab_C(void) { return (const uint64_t *)&PoseidonGoldilocksConstants::C[0]; }
extern "C" const uint64_t *vf_tab_M_(void) { return (const uint64_t *)&PoseidonGoldilocksConstants::M_[0]; }
extern "C" const uint64_t *vf_tab_M(void) { return (const uint64_t *)&PoseidonGoldilocksConstants::M[0][0]; }
extern "C" const uint64_t *vf_tab_P_(void) { return (const uint64_t *)&PoseidonGoldilocksConstants::P_[0]; }
extern "C" const uint64_t *vf_tab_P(void) { return (const uint64_t *)&PoseidonGoldilocksConstants::P[0][0]; }
