// E-callee forwarders for the pow7 vector helpers: mult / square kernels by contract
#include "goldilocks_base_field.hpp"
extern "C" { void k_mult_avx(uint64_t *c, const uint64_t *a, const uint64_t *b); void k_mult_avx512(uint64_t *c, const uint64_t *a, const uint64_t *b); }
void Goldilocks::mult_avx(__m256i &c, const __m256i &a, const __m256i &b) { uint64_t tc[4], ta[4], tb[4]; for (int i = 0; i < 4; i++) { ta[i] = a.v[i]; tb[i] = b.v[i]; } k_mult_avx(tc, ta, tb); for (int i = 0; i < 4; i++) c.v[i] = tc[i]; }
void Goldilocks::square_avx(__m256i &c, __m256i &a) { uint64_t tc[4], ta[4]; for (int i = 0; i < 4; i++) ta[i] = a.v[i]; k_mult_avx(tc, ta, ta); for (int i = 0; i < 4; i++) c.v[i] = tc[i]; }
#ifdef __AVX512__
void Goldilocks::mult_avx512(__m512i &c, const __m512i &a, const __m512i &b) { uint64_t tc[8], ta[8], tb[8]; for (int i = 0; i < 8; i++) { ta[i] = a.v[i]; tb[i] = b.v[i]; } k_mult_avx512(tc, ta, tb); for (int i = 0; i < 8; i++) c.v[i] = tc[i]; }
void Goldilocks::square_avx512(__m512i &c, __m512i &a) { uint64_t tc[8], ta[8]; for (int i = 0; i < 8; i++) ta[i] = a.v[i]; k_mult_avx512(tc, ta, ta); for (int i = 0; i < 8; i++) c.v[i] = tc[i]; }
#endif
