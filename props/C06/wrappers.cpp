// C06 wrappers: Poseidon helpers and the scalar permutation.  The helpers are private static members: this unit is compiled with
// -Dprivate=public (access only; nothing else changes).
#include "poseidon_goldilocks.hpp"
#include "vf_wrap.h"
typedef Goldilocks::Element E;
extern "C" void p_pow7(uint64_t *x) { PoseidonGoldilocks::pow7(*(E *)x); }
extern "C" void p_pow7_(uint64_t *x) { PoseidonGoldilocks::pow7_((E *)x); }
extern "C" void p_add_(uint64_t *x, const uint64_t *c) { PoseidonGoldilocks::add_((E *)x, (const E *)c); }
extern "C" void p_pow7add_(uint64_t *x, const uint64_t *c) { PoseidonGoldilocks::pow7add_((E *)x, (const E *)c); }
extern "C" void p_prod_(uint64_t *x, uint64_t alpha, const uint64_t *c) { E a = {alpha}; PoseidonGoldilocks::prod_((E *)x, a, (const E *)c); }
extern "C" uint64_t p_dot_(uint64_t *x, const uint64_t *c) { return PoseidonGoldilocks::dot_((E *)x, (const E *)c).fe; }
extern "C" void p_mvp_(uint64_t *x, const uint64_t *mat) { 
#ifdef VF_NATIVE
  PoseidonGoldilocks::mvp_((E *)x, (const E(*)[12])mat);
#else
  PoseidonGoldilocks::mvp_((E *)x, (const E *)mat);   /* E-norm: flat parameter in the filtered copy */
#endif
 }
extern "C" void p_hash_full_result_seq(uint64_t *state, const uint64_t *input) { PoseidonGoldilocks::hash_full_result_seq((E *)state, (const E *)input); }
// hash_seq (first four elements) is not wrapped: CBMC cannot form the reference-to-array arguments; it is three lines over hash_full_result_seq
// table accessors for the schedule monitor
extern "C" const uint64_t *vf_tab_C(void) { return (const uint64_t *)&PoseidonGoldilocksConstants::C[0]; }
extern "C" const uint64_t *vf_tab_S(void) { return (const uint64_t *)&PoseidonGoldilocksConstants::S[0]; }
extern "C" const uint64_t *vf_tab_M(void) { return (const uint64_t *)&PoseidonGoldilocksConstants::M[0][0]; }
extern "C" const uint64_t *vf_tab_P(void) { return (const uint64_t *)&PoseidonGoldilocksConstants::P[0][0]; }
extern "C" const uint64_t *vf_tab_M_(void) { return (const uint64_t *)&PoseidonGoldilocksConstants::M_[0]; }
extern "C" const uint64_t *vf_tab_P_(void) { return (const uint64_t *)&PoseidonGoldilocksConstants::P_[0]; }
