"""C06 - Poseidon permutation: helpers against exact DAGs, scalar permutation against the specified schedule."""
import os, sys, re
sys.path.insert(0, os.path.dirname(os.path.dirname(os.path.dirname(os.path.abspath(__file__)))))
from vf.driver import Group, Unit, import_units
from vf import extract

PROPERTY = 'C06'
LEVEL = 'proof'
PH = 'poseidon_goldilocks.hpp'
HELPERS = ['pow7', 'pow7_', 'add_', 'pow7add_', 'prod_', 'dot_', 'mvp_']
def filt(schedule):
    def f_(repo_src, dst):
        f = extract.base_filter(repo_src, dst)
        # E-norm: `inline void static f` (specifier order CBMC's C++ grammar rejects) -> `static inline void f`
        f.replace_text(PH, 'E-norm', r'\binline (void|Goldilocks::Element) static\b', r'static inline \1', 15)
        f.replace_text(PH, 'E-norm', r'(?m)^(\s*)void static\b', r'\1static void', tuple(range(10, 40)))
        # E-norm: a 2-D array parameter is spelled as the pointer-to-row it is adjusted to (CBMC does not perform the adjustment when matching the call)
        f.replace_text(PH, 'E-norm', r'const Goldilocks::Element mat\[SPONGE_WIDTH\]\[SPONGE_WIDTH\]', 'const Goldilocks::Element *mat /* E-norm: flat view of the 12x12 table */', 2)
        f.replace_text(PH, 'E-norm', r'\bmat\[(\w+)\]\[(\w+)\]', r'mat[(\1) * SPONGE_WIDTH + (\2)]', 2)
        f.replace_text('poseidon_goldilocks.cpp', 'E-norm', r'mvp_\(state, PoseidonGoldilocksConstants::(M|P)\)', r'mvp_(state, &PoseidonGoldilocksConstants::\1[0][0])', 4)
        f.drop_function('goldilocks_base_field_scalar.hpp', 'Goldilocks::mul', ptypes=['Element&', 'const Element&', 'const Element&'], expect=1, rule='E-callee')
        f.drop_function('goldilocks_base_field_scalar.hpp', 'Goldilocks::add', ptypes=['Element&', 'const Element&', 'const Element&'], expect=1, rule='E-callee')
        if schedule:
            for h in HELPERS:
                f.drop_function(PH, 'PoseidonGoldilocks::' + h, expect=1, rule='E-callee')
        # functions of poseidon_goldilocks.cpp that are not under contract in this property and use constructs outside CBMC's C++ subset (VLAs, floor)
        for fn in ('merkletree_seq', 'merkletree_batch_seq', 'merkletree_avx', 'merkletree_batch_avx', 'linear_hash_seq', 'linear_hash', 'hash_full_result'):
            f.drop_function('poseidon_goldilocks.cpp', 'PoseidonGoldilocks::' + fn, expect=1, rule='E-drop')
        f.replace_text('poseidon_goldilocks.cpp', 'E-drop', r'#include "merklehash_goldilocks.hpp"', '/* E-drop: merklehash_goldilocks.hpp not needed here (its two root() overloads collide in CBMC: reference-to-array vs pointer) */', 1)
        return f
    return f_
SRC = dict(cpp=['props/C06/wrappers.cpp', 'props/C06/forwarders.cpp'], c=['props/C06/contracts.c'], repo_cpp=['goldilocks_base_field.cpp', 'poseidon_goldilocks.cpp'])
GROUPS = {
    'helpers': Group('helpers', filt(False), defines=['VF_UF_ADDSUB'], cxx_defines=['private=public'], **SRC),
    'log': Group('log', filt(False), defines=['VF_UF_ADDSUB', 'VF_LOG'], cxx_defines=['private=public'], **SRC),
    'sched': Group('sched', filt(True), defines=['VF_UF_ADDSUB', 'VF_SCHEDULE'], cxx_defines=['private=public', 'FWD_HELPERS'], **SRC),
}
def filt_avx(repo_src, dst):
    f = filt(False)(repo_src, dst)
    f.drop_function('goldilocks_base_field_avx.hpp', 'Goldilocks::mult_avx', expect=1, rule='E-callee')
    f.drop_function('goldilocks_base_field_avx.hpp', 'Goldilocks::square_avx', expect=1, rule='E-callee')
    f.drop_function('goldilocks_base_field_avx512.hpp', 'Goldilocks::mult_avx512', expect=1, rule='E-callee')
    f.drop_function('goldilocks_base_field_avx512.hpp', 'Goldilocks::square_avx512', expect=1, rule='E-callee')
    f.drop_function('poseidon_goldilocks.cpp', 'PoseidonGoldilocks::hash_full_result_avx512', expect=1, rule='E-drop')
    f.drop_function('poseidon_goldilocks.cpp', 'PoseidonGoldilocks::linear_hash_avx512', expect=1, rule='E-drop')
    f.drop_function('poseidon_goldilocks.cpp', 'PoseidonGoldilocks::merkletree_avx512', expect=1, rule='E-drop')
    f.drop_function('poseidon_goldilocks.cpp', 'PoseidonGoldilocks::merkletree_batch_avx512', expect=1, rule='E-drop')
    return f
AVXSRC = dict(cpp=['props/C06/wrappers_avx.cpp', 'props/C06/forwarders_avx.cpp'], c=['props/C06/contracts_avx.c'], repo_cpp=['goldilocks_base_field.cpp'])
GROUPS['avx2'] = Group('avx2', filt_avx, defines=["VF_W=4"], cxx_defines=['private=public', '__AVX512__'], **AVXSRC)
GROUPS['avx512'] = Group('avx512', filt_avx, defines=["VF_W=8"], cxx_defines=['private=public', '__AVX512__'], **AVXSRC)
GROUPS['avx2u'] = Group('avx2u', filt_avx, defines=['VF_W=4', 'VF_UF_ADDSUB'], cxx_defines=['private=public', '__AVX512__'], **AVXSRC)
GROUPS['avx512u'] = Group('avx512u', filt_avx, defines=['VF_W=8', 'VF_UF_ADDSUB'], cxx_defines=['private=public', '__AVX512__'], **AVXSRC)
UNITS = []
PA = 'src/poseidon_goldilocks_avx.hpp'; PA5 = 'src/poseidon_goldilocks_avx512.hpp'
for n in ('add_avx', 'add_avx_a', 'add_avx_small', 'pow7_avx'):
    UNITS.append(Unit('q_' + n, 'avx2u' if 'pow7' in n else 'avx2', 'q_' + n, replace=(['k_mult_avx'] if 'pow7' in n else []), functions=['PoseidonGoldilocks::%s (%s)' % (n, PA)], timeout=600))
for n in ('add_avx512', 'add_avx512_small', 'pow7_avx512'):
    UNITS.append(Unit('q_' + n, 'avx512u' if 'pow7' in n else 'avx512', 'q_' + n, replace=(['k_mult_avx512'] if 'pow7' in n else []), functions=['PoseidonGoldilocks::%s (%s)' % (n, PA5)], timeout=(2400 if 'pow7' in n else 600), tier=('thorough' if 'pow7' in n else 'quick')))
UNITS.append(Unit('tables', 'avx2', 'tables', harness='hl_tables', light=True, flags=['--unwind', '145', '--unwinding-assertions'], loops='unwind 145 (table sizes 118 / 144)',
                  functions=['PoseidonGoldilocksConstants::C / M / M_ / P / P_ (src/poseidon_goldilocks_constants.hpp): operand-range facts and re-layout'], timeout=600))
for h in HELPERS:
    UNITS.append(Unit('p_' + h, 'log' if h in ('pow7_', 'pow7add_', 'mvp_') else 'helpers', 'p_' + h, harness='hl_p_' + h, light=True, flags=['--unwind', '145' if h == 'mvp_' else '13', '--unwinding-assertions'], loops='unwind 13 (constant trip count 12; harness copy loop 144 for mvp_)', timeout=900,
                      functions=['PoseidonGoldilocks::%s (src/%s)' % (h, PH)]))
UNITS.append(Unit('p_hash_full_result_seq', 'sched', 'p_hash_full_result_seq', harness='hl_p_hash_full_result_seq', light=True, flags=['--unwind', '145', '--unwinding-assertions'],
                  loops='unwind 145 (constant trip counts 3, 22, 3, 12; table comparison 144)', timeout=600, functions=['PoseidonGoldilocks::hash_full_result_seq (src/poseidon_goldilocks.cpp) [helpers replaced by the schedule monitor]']))
_g, _u = import_units('C01', lambda n: re.match(r'w_(mul|add)(_oa|_ob|_ab|_oab|_v)?$|w_op_(times|plus)$', n))
GROUPS.update(_g); UNITS += _u
TRUSTED_BASE = ['caller-facing contracts of scalar mul / add over uninterpreted field operations (C01)', 'E-norm specifier-order rewrite, -Dprivate=public for the wrapper unit',
                'NOT PROVED: that the optimised schedule (sparse partial-round matrices S, pre-mixed matrix P) equals the textbook Poseidon with the dense MDS matrix - the specification used here IS the optimised schedule with the library tables',
                'NOT COVERED: the top level of the AVX2 and AVX-512 permutations hash_full_result / hash_full_result_avx512 (their vector helpers pow7_avx*, add_avx*(_small) and the table facts they rely on ARE under contract here, the matrix kernels in C13/C14; the equivalence of the vector schedule with the scalar one is not decided)']
ASSUMPTIONS = []
EXPLANATION = 'Scalar permutation: helper DAGs + call-by-call schedule / data-flow monitor (4 + 22 + 4 rounds, x^7, tables C, S, M, P).'
MANIFEST_ENTRY = dict(category='proof', technique='CBMC light harnesses: helper functions against exact DAGs over uninterpreted field operations; top level against a ghost schedule / data-flow monitor',
    text='Scalar Poseidon: each helper (x^7 chain, constant addition, MDS product, sparse row/column products) equals its expression DAG for all states, and hash_full_result_seq performs exactly the 4+22+4 round schedule with the library tables on the flowing state (all states, in place or not).',
    note='The AVX2 / AVX-512 permutations are NOT shown equal to the scalar one by this check (kernels only, in C02/C11/C13/C14); equivalence of the optimised schedule with textbook Poseidon is not proved.')
