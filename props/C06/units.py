"""C06 - Poseidon permutation: helpers against exact DAGs, scalar permutation against the specified schedule."""
import os, sys, re
sys.path.insert(0, os.path.dirname(os.path.dirname(os.path.dirname(os.path.abspath(__file__)))))
from vf.driver import Group, Unit, import_units
from vf import extract

PROPERTY = 'C06'
LEVEL = 'proof'
PH = 'poseidon_goldilocks.hpp'
HELPERS = ['pow7', 'pow7_', 'add_', 'pow7add_', 'prod_', 'dot_', 'mvp_']
def filt(schedule):
    def f_(repo_src, dst):
        f = extract.base_filter(repo_src, dst)
        # E-norm: `inline void static f` (specifier order CBMC's C++ grammar rejects) -> `static inline void f`
        f.replace_text(PH, 'E-norm', r'\binline (void|Goldilocks::Element) static\b', r'static inline \1', 15)
        f.replace_text(PH, 'E-norm', r'(?m)^(\s*)void static\b', r'\1static void', tuple(range(10, 40)))
        # E-norm: a 2-D array parameter is spelled as the pointer-to-row it is adjusted to (CBMC does not perform the adjustment when matching the call)
        f.replace_text(PH, 'E-norm', r'const Goldilocks::Element mat\[SPONGE_WIDTH\]\[SPONGE_WIDTH\]', 'const Goldilocks::Element *mat /* E-norm: flat view of the 12x12 table */', 2)
        f.replace_text(PH, 'E-norm', r'\bmat\[(\w+)\]\[(\w+)\]', r'mat[(\1) * SPONGE_WIDTH + (\2)]', 2)
        f.replace_text('poseidon_goldilocks.cpp', 'E-norm', r'mvp_\(state, PoseidonGoldilocksConstants::(M|P)\)', r'mvp_(state, &PoseidonGoldilocksConstants::\1[0][0])', 4)
        f.drop_function('goldilocks_base_field_scalar.hpp', 'Goldilocks::mul', ptypes=['Element&', 'const Element&', 'const Element&'], expect=1, rule='E-callee')
        f.drop_function('goldilocks_base_field_scalar.hpp', 'Goldilocks::add', ptypes=['Element&', 'const Element&', 'const Element&'], expect=1, rule='E-callee')
        if schedule:
            for h in HELPERS:
                f.drop_function(PH, 'PoseidonGoldilocks::' + h, expect=1, rule='E-callee')
        # functions of poseidon_goldilocks.cpp that are not under contract in this property and use constructs outside CBMC's C++ subset (VLAs, floor)
        for fn in ('merkletree_seq', 'merkletree_batch_seq', 'merkletree_avx', 'merkletree_batch_avx', 'linear_hash_seq', 'linear_hash', 'hash_full_result'):
            f.drop_function('poseidon_goldilocks.cpp', 'PoseidonGoldilocks::' + fn, expect=1, rule='E-drop')
        f.replace_text('poseidon_goldilocks.cpp', 'E-drop', r'#include "merklehash_goldilocks.hpp"', '/* E-drop: merklehash_goldilocks.hpp not needed here (its two root() overloads collide in CBMC: reference-to-array vs pointer) */', 1)
        return f
    return f_
SRC = dict(cpp=['props/C06/wrappers.cpp', 'props/C06/forwarders.cpp'], c=['props/C06/contracts.c'], repo_cpp=['goldilocks_base_field.cpp', 'poseidon_goldilocks.cpp'])
GROUPS = {
    'helpers': Group('helpers', filt(False), defines=['VF_UF_ADDSUB'], cxx_defines=['private=public'], **SRC),
    'log': Group('log', filt(False), defines=['VF_UF_ADDSUB', 'VF_LOG'], cxx_defines=['private=public'], **SRC),
    'sched': Group('sched', filt(True), defines=['VF_UF_ADDSUB', 'VF_SCHEDULE'], cxx_defines=['private=public', 'FWD_HELPERS'], **SRC),
}
UNITS = []
for h in HELPERS:
    UNITS.append(Unit('p_' + h, 'log' if h in ('pow7_', 'pow7add_', 'mvp_') else 'helpers', 'p_' + h, harness='hl_p_' + h, light=True, flags=['--unwind', '145' if h == 'mvp_' else '13', '--unwinding-assertions'], loops='unwind 13 (constant trip count 12; harness copy loop 144 for mvp_)', timeout=900,
                      functions=['PoseidonGoldilocks::%s (src/%s)' % (h, PH)]))
UNITS.append(Unit('p_hash_full_result_seq', 'sched', 'p_hash_full_result_seq', harness='hl_p_hash_full_result_seq', light=True, flags=['--unwind', '145', '--unwinding-assertions'],
                  loops='unwind 145 (constant trip counts 3, 22, 3, 12; table comparison 144)', timeout=600, functions=['PoseidonGoldilocks::hash_full_result_seq (src/poseidon_goldilocks.cpp) [helpers replaced by the schedule monitor]']))
_g, _u = import_units('C01', lambda n: re.match(r'w_(mul|add)(_oa|_ob|_ab|_oab|_v)?$|w_op_(times|plus)$', n))
GROUPS.update(_g); UNITS += _u
TRUSTED_BASE = ['caller-facing contracts of scalar mul / add over uninterpreted field operations (C01)', 'E-norm specifier-order rewrite, -Dprivate=public for the wrapper unit',
                'NOT PROVED: that the optimised schedule (sparse partial-round matrices S, pre-mixed matrix P) equals the textbook Poseidon with the dense MDS matrix - the specification used here IS the optimised schedule with the library tables',
                'NOT COVERED in this check: the AVX2 and AVX-512 permutations hash_full_result / hash_full_result_avx512 (their kernels are under contract in C02/C11/C13/C14; the top-level equivalence with the scalar permutation is not decided)']
ASSUMPTIONS = []
EXPLANATION = 'Scalar permutation: helper DAGs + call-by-call schedule / data-flow monitor (4 + 22 + 4 rounds, x^7, tables C, S, M, P).'
MANIFEST_ENTRY = dict(category='proof', technique='CBMC light harnesses: helper functions against exact DAGs over uninterpreted field operations; top level against a ghost schedule / data-flow monitor',
    text='Scalar Poseidon: each helper (x^7 chain, constant addition, MDS product, sparse row/column products) equals its expression DAG for all states, and hash_full_result_seq performs exactly the 4+22+4 round schedule with the library tables on the flowing state (all states, in place or not).',
    note='The AVX2 / AVX-512 permutations are NOT shown equal to the scalar one by this check (kernels only, in C02/C11/C13/C14); equivalence of the optimised schedule with textbook Poseidon is not proved.')
