// C11 wrappers: extern "C" marshalling into the real AVX-512 kernels of goldilocks_base_field_avx512.hpp (built with -D__AVX512__).
// An 8-lane register is passed as uint64_t[8] (lane i = element i); nothing here computes.
#include "goldilocks_base_field.hpp"
#include "vf_wrap.h"
#define LD(p) _mm512_loadu_si512((const void *)(p))
#define ST(p, v) _mm512_storeu_si512((void *)(p), (v))

#define K_UN(name) extern "C" void k_##name(uint64_t *c, const uint64_t *a) \
  { VF_IN8(a, a); __m512i va = LD(a), vc; Goldilocks::name(vc, va); ST(c, vc); }
#define K_BIN(name) extern "C" void k_##name(uint64_t *c, const uint64_t *a, const uint64_t *b) \
  { VF_IN8(a, a); VF_IN8(b, b); __m512i va = LD(a), vb = LD(b), vc; Goldilocks::name(vc, va, vb); ST(c, vc); }
#define K_BIN2(name) extern "C" void k_##name(uint64_t *ch, uint64_t *cl, const uint64_t *a, const uint64_t *b) \
  { VF_IN8(a, a); VF_IN8(b, b); __m512i va = LD(a), vb = LD(b), vh, vl; Goldilocks::name(vh, vl, va, vb); ST(ch, vh); ST(cl, vl); }

K_UN(toCanonical_avx512)
K_BIN(add_avx512)
K_BIN(add_avx512_b_c)
K_BIN(sub_avx512)
K_BIN(sub_avx512_b_c)
K_BIN(mult_avx512)
K_BIN(mult_avx512_8)
K_BIN2(mult_avx512_128)
K_BIN2(mult_avx512_72)
K_BIN(reduce_avx512_128_64)   // (c, c_h, c_l)
K_BIN(reduce_avx512_96_64)
extern "C" void k_square_avx512(uint64_t *c, uint64_t *a) { VF_IN8(a, a); __m512i va = LD(a), vc; Goldilocks::square_avx512(vc, va); ST(c, vc); ST(a, va); }
extern "C" void k_square_avx512_128(uint64_t *ch, uint64_t *cl, const uint64_t *a)
  { VF_IN8(a, a); __m512i va = LD(a), vh, vl; Goldilocks::square_avx512_128(vh, vl, va); ST(ch, vh); ST(cl, vl); }
extern "C" void k_add_avx512_ca(uint64_t *ca, const uint64_t *b) { VF_IN8(a, ca); VF_IN8(b, b); __m512i va = LD(ca), vb = LD(b); Goldilocks::add_avx512(va, va, vb); ST(ca, va); }
extern "C" void k_sub_avx512_cb(uint64_t *cb, const uint64_t *a) { VF_IN8(a, a); VF_IN8(b, cb); __m512i va = LD(a), vb = LD(cb); Goldilocks::sub_avx512(vb, va, vb); ST(cb, vb); }
extern "C" void k_mult_avx512_cab(uint64_t *cab) { VF_IN8(a, cab); VF_IN8(b, cab); __m512i va = LD(cab); Goldilocks::mult_avx512(va, va, va); ST(cab, va); }
extern "C" void k_load_avx512(uint64_t *c, const uint64_t *mem) { VF_IN8(a, mem); __m512i v; Goldilocks::load_avx512(v, (const Goldilocks::Element *)mem); ST(c, v); }
extern "C" void k_load_avx512_a(uint64_t *c, const uint64_t *mem) { VF_IN8(a, mem); __m512i v; Goldilocks::load_avx512_a(v, (const Goldilocks::Element *)mem); ST(c, v); }
extern "C" void k_store_avx512(uint64_t *mem, const uint64_t *a) { VF_IN8(a, a); __m512i v = LD(a); Goldilocks::store_avx512((Goldilocks::Element *)mem, v); }
extern "C" void k_store_avx512_a(uint64_t *mem, const uint64_t *a) { VF_IN8(a, a); __m512i v = LD(a); Goldilocks::store_avx512_a((Goldilocks::Element *)mem, v); }
