// E-callee forwarders for the modular AVX-512 units (see props/C02/forwarders.cpp for the scheme).
#include "goldilocks_base_field.hpp"
extern "C" void k_mult_avx512_128(uint64_t *ch, uint64_t *cl, const uint64_t *a, const uint64_t *b);
extern "C" void k_reduce_avx512_128_64(uint64_t *c, const uint64_t *ch, const uint64_t *cl);
#define CP8(d, s) do { for (int i_ = 0; i_ < 8; i_++) (d)[i_] = (s)[i_]; } while (0)
#ifdef FWD_MULT_AVX512_128
void Goldilocks::mult_avx512_128(__m512i &c_h, __m512i &c_l, const __m512i &a, const __m512i &b)
{ uint64_t th[8], tl[8], ta[8], tb[8]; CP8(ta, a.v); CP8(tb, b.v); k_mult_avx512_128(th, tl, ta, tb); CP8(c_h.v, th); CP8(c_l.v, tl); }
#endif
#ifdef FWD_REDUCE_AVX512_128_64
void Goldilocks::reduce_avx512_128_64(__m512i &c, const __m512i &c_h, const __m512i &c_l)
{ uint64_t tc[8], th[8], tl[8]; CP8(th, c_h.v); CP8(tl, c_l.v); k_reduce_avx512_128_64(tc, th, tl); CP8(c.v, tc); }
#endif
extern "C" void k_square_avx512_128(uint64_t *ch, uint64_t *cl, const uint64_t *a);
#ifdef FWD_SQUARE_128
void Goldilocks::square_avx512_128(__m512i &c_h, __m512i &c_l, const __m512i &a)
{ uint64_t th[8], tl[8], ta[8]; CP8(ta, a.v); k_square_avx512_128(th, tl, ta); CP8(c_h.v, th); CP8(c_l.v, tl); }
#endif
