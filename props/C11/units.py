"""C11 - AVX-512 lane kernels equal the scalar field op in every lane, every input (build -D__AVX512__)."""
import os, sys
sys.path.insert(0, os.path.dirname(os.path.dirname(os.path.dirname(os.path.abspath(__file__)))))
from vf.driver import Group, Unit
from vf import extract

PROPERTY = 'C11'
LEVEL = 'proof'
SRC = dict(cpp=['props/C11/wrappers.cpp'], c=['props/C11/contracts.c'])
GROUPS = {
    'exact': Group('exact', extract.base_filter, cxx_defines=['__AVX512__'], **SRC),
    'abs32': Group('abs32', extract.base_filter, defines=['VF_MUL32_ABSTRACT'], cxx_defines=['__AVX512__'], **SRC),
}
for lane in range(8):
    GROUPS['abs32_l%d' % lane] = Group('abs32_l%d' % lane, extract.base_filter, defines=['VF_MUL32_ABSTRACT', 'VF_MUL32_PURE', 'VF_LANE=%d' % lane], cxx_defines=['__AVX512__'], **SRC)
def filt_mult(repo_src, dst):
    f = extract.base_filter(repo_src, dst)
    f.drop_function('goldilocks_base_field_avx512.hpp', 'Goldilocks::mult_avx512_128', expect=1, rule='E-callee')
    f.drop_function('goldilocks_base_field_avx512.hpp', 'Goldilocks::reduce_avx512_128_64', expect=1, rule='E-callee')
    f.drop_function('goldilocks_base_field_avx512.hpp', 'Goldilocks::square_avx512_128', expect=1, rule='E-callee')
    return f
GROUPS['mod'] = Group('mod', filt_mult, cpp=['props/C11/wrappers.cpp', 'props/C11/forwarders.cpp'], c=['props/C11/contracts.c'],
                      defines=['VF_MUL32_ABSTRACT', 'VF_MODULAR'], cxx_defines=['__AVX512__', 'FWD_MULT_AVX512_128', 'FWD_REDUCE_AVX512_128_64', 'FWD_SQUARE_128'])
A = 'src/goldilocks_base_field_avx512.hpp'
UNITS = []
def U(name, group='exact', desc=None, **kw):
    if group == 'modlanes':
        UNITS.append(Unit('k_%s' % name, 'mod', 'k_' + name, replace=['k_mult_avx512_128', 'k_reduce_avx512_128_64', 'k_square_avx512_128'],
                          functions=['Goldilocks::%s over the contracts of mult/square_avx512_128 and reduce_avx512_128_64 (%s)' % (desc or name, A)], **kw))
        return
    if group == 'lanes':
        for lane in range(8):
            UNITS.append(Unit('k_%s@lane%d' % (name, lane), 'abs32_l%d' % lane, 'k_' + name, functions=['Goldilocks::%s [lane %d] (%s)' % (desc or name, lane, A)], **kw))
        return
    UNITS.append(Unit('k_' + name, group, 'k_' + name, functions=['Goldilocks::%s (%s)' % (desc or name, A)], **kw))
for n in ('toCanonical_avx512', 'add_avx512', 'add_avx512_b_c', 'sub_avx512', 'sub_avx512_b_c',
          'load_avx512', 'load_avx512_a', 'store_avx512', 'store_avx512_a'):
    U(n)
U('add_avx512_ca', desc='add_avx512 [c==a]')
U('sub_avx512_cb', desc='sub_avx512 [c==b]')
for n in ('reduce_avx512_128_64', 'reduce_avx512_96_64', 'mult_avx512_8'):
    U(n, 'abs32', timeout=400)
U('mult_avx512_72', 'lanes')
for n in ('mult_avx512_128', 'square_avx512_128'):
    U(n, 'lanes')
U('square_avx512', 'modlanes')
U('mult_avx512', 'modlanes')
U('mult_avx512_cab', 'modlanes', desc='mult_avx512 [c==a==b]')

NATIVE_FLAGS = ['-mavx2', '-mavx512f', '-D__AVX512__']
TRUSTED_BASE = [
    'L0 intrinsic semantics table stubs/vf_intrin.h (25 AVX-512F intrinsics); guarded natively against the AVX-512F hardware of this machine by tools/intrin_guard, not proved',
    'alignment requirement of _mm512_load_si512/_mm512_store_si512 not modelled',
    'the 32x32->64 product of _mm512_mul_epu32 is an uninterpreted commutative function with range axioms in the recombination units (exact for the constant factor 2^32-1); lemma schoolbook (Lean) identifies the recombination with a*b',
    'mathematical step r == T(hi,lo)+k*p ==> canon(r) == hi:lo mod p (with C01 lemma_reduce_congruence)',
    'CBMC 6.11.0 C++ front end, goto-instrument dfcc, cadical; extraction rules under coverage.extraction',
]
ASSUMPTIONS = ['documented operand assumptions are the preconditions: b_c canonical for add_avx512_b_c / sub_avx512_b_c; b_8 < 2^8; c_h < 2^32 for reduce_avx512_96_64',
               'build configuration -D__AVX512__ (never selected by the shipped test build)']
EXPLANATION = 'As C02 on the 8-lane layout; heavy recombination kernels are proved one lane per unit (same contract, lane fixed by the build), all 8 lanes every run.'
MANIFEST_ENTRY = dict(
    category='proof',
    technique='CBMC code contracts (dfcc) on the real AVX-512 kernels compiled with -D__AVX512__ against a C semantics table of the intrinsics',
    text='One unit per 8-lane kernel (canonicalise, add/sub and their canonical-operand variants, 128/72-bit products, both reductions, mult, mult_8, square, loads/stores, register aliasing), all lanes, all register contents, under the documented operand assumptions; no bound.',
    note='Trusted: AVX-512 intrinsic semantics table (guarded natively on AVX-512F hardware), 32x32 product abstracted as an uninterpreted function in recombination units, alignment not modelled, CBMC/cadical.')
NATIVE_SOURCES = ['props/C11/wrappers.cpp']

LEMMAS = ['schoolbook', 'schoolbook_sq', 'reduce_congruence']
def extra_checks(rn, tier, ginfos):
    from vf import lean
    import os, json
    r = lean.check_lemmas(LEMMAS)
    if r.get('lean_failed'):
        path = os.path.join(os.environ.get('VF_REPLAY_DIR', os.path.join(os.path.dirname(os.path.dirname(os.path.dirname(os.path.abspath(__file__)))), 'replay', 'out')), PROPERTY)
        os.makedirs(path, exist_ok=True)
        f = os.path.join(path, 'lean-lemmas.json')
        json.dump(dict(property=PROPERTY, obligation='Lean lemmas ' + ', '.join(LEMMAS), verifier_output=r.get('lean_output', '')), open(f, 'w'), indent=1)
        r['violations'] = ['VIOLATION property=%s replay=%s [Lean lemma no longer accepted] no-failing-input-found' % (PROPERTY, f)]
    return r
