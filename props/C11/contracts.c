/* C11 contracts: AVX-512 lane kernels equal the scalar field op in every lane, for every register content
 * (restricted only by each kernel's documented operand assumption, which is the `requires`). */
#include "spec.h"
#define VF_SENTINEL __CPROVER_assert(0, "vf_sentinel: harness reaches the point after the call")
#define MSB 0x8000000000000000UL
#define BSMALL 0xFFFFFFFF00000000UL
#define V4(p) __CPROVER_is_fresh(p, 64)
#ifdef VF_LANE   /* heavy kernels: one unit per lane (same contract, lane fixed by the build) */
#define ALL4(F) (F(VF_LANE))
#else
#define ALL4(F) (F(0) && F(1) && F(2) && F(3) && F(4) && F(5) && F(6) && F(7))
#endif

/* ---- the 32x32->64 product of _mm512_mul_epu32 (stubs/vf_intrin.h).  In the units that define VF_MUL32_ABSTRACT it is an
 * uninterpreted commutative function with the range axiom f <= (2^32-1)^2, exact only for the constant factor 2^32-1
 * (the reduction's multiplication by P_n, a shift and a subtraction).  The real product is one such function. */
#ifdef VF_MUL32_ABSTRACT
u64 __CPROVER_uninterpreted_mul32(u32, u32);
static inline u64 M32(u32 a, u32 b)
{
#ifndef VF_MUL32_PURE   /* the recombination units do not need the exact case */
  if (b == 0xFFFFFFFFU) return ((u64)a << 32) - a;
  if (a == 0xFFFFFFFFU) return ((u64)b << 32) - b;
#endif
  u32 lo = a <= b ? a : b, hi = a <= b ? b : a;
  u64 r = __CPROVER_uninterpreted_mul32(lo, hi);
  __CPROVER_assume(r <= 0xFFFFFFFE00000001UL);                    /* AXIOM(mul32-range): x*y <= (2^32-1)^2 */
  __CPROVER_assume(lo >= 256 || r <= ((u64)hi << 8) - (u64)hi);   /* AXIOM(mul32-range8): y < 2^8 ==> x*y <= 255*x */
  return r;
}
u64 vf_mul32(u32 a, u32 b) { return M32(a, b); }
#else
static inline u64 M32(u32 a, u32 b) { return (u64)a * (u64)b; }
#endif
#define LO32(x) ((u32)(x))
#define HI32(x) ((u32)((x) >> 32))
/* school-book recombination of the four partial products (what a*b is, by lemma schoolbook).
 * Macros, not functions: dfcc cannot instrument a spec function that calls another spec function. */
#define school(a, b) ((((u128)M32(HI32(a), HI32(b))) << 64) + ((((u128)M32(HI32(a), LO32(b))) + ((u128)M32(LO32(a), HI32(b)))) << 32) + ((u128)M32(LO32(a), LO32(b))))
#define school_sq(a) ((((u128)M32(HI32(a), HI32(a))) << 64) + (((u128)M32(LO32(a), HI32(a))) << 33) + ((u128)M32(LO32(a), LO32(a))))
#define HI64(x) ((u64)((x) >> 64))
#define LO64(x) ((u64)(x))
/* the 128-bit product a*b as (PRODH, PRODL).  In the kernels' own units it is *defined* as the school-book recombination;
 * in the modular units (VF_MODULAR: callers of mult_avx_128 checked against its contract) the definition is not unfolded:
 * the two halves are uninterpreted functions of (a,b) - every fact proved for all interpretations holds for the defined one. */
#ifdef VF_MODULAR
u64 __CPROVER_uninterpreted_prodh(u64, u64);
u64 __CPROVER_uninterpreted_prodl(u64, u64);
#define PRODH(a, b) __CPROVER_uninterpreted_prodh(a, b)
#define PRODL(a, b) __CPROVER_uninterpreted_prodl(a, b)
#else
#define PRODH(a, b) HI64(school(a, b))
#define PRODL(a, b) LO64(school(a, b))
#endif

#define UNC(name, REQ, POST) void k_##name(u64 *c, const u64 *a) \
  __CPROVER_requires(V4(c) && V4(a) && ALL4(REQ)) __CPROVER_assigns(__CPROVER_object_whole(c)) __CPROVER_ensures(ALL4(POST)) \
  __CPROVER_ensures(1); \
  void h_k_##name(void) { u64 *c, *a; k_##name(c, a); VF_SENTINEL; }
#define BINC(name, REQ, POST) void k_##name(u64 *c, const u64 *a, const u64 *b) \
  __CPROVER_requires(V4(c) && V4(a) && V4(b) && ALL4(REQ)) __CPROVER_assigns(__CPROVER_object_whole(c)) __CPROVER_ensures(ALL4(POST)); \
  void h_k_##name(void) { u64 *c, *a, *b; k_##name(c, a, b); VF_SENTINEL; }
#define BIN2C(name, REQ, POST) void k_##name(u64 *ch, u64 *cl, const u64 *a, const u64 *b) \
  __CPROVER_requires(V4(ch) && V4(cl) && V4(a) && V4(b) && ALL4(REQ)) __CPROVER_assigns(__CPROVER_object_whole(ch), __CPROVER_object_whole(cl)) __CPROVER_ensures(ALL4(POST)); \
  void h_k_##name(void) { u64 *ch, *cl, *a, *b; k_##name(ch, cl, a, b); VF_SENTINEL; }
#define TRUE_(i) 1

/* 128-bit product against the school-book recombination of the four 32x32 products */
#define U128(h, l) ((((u128)(h)) << 64) | (u128)(l))
#ifdef VF_MODULAR
#define P_m128(i) (ch[i] == PRODH(a[i], b[i]) && cl[i] == PRODL(a[i], b[i]))
#else
#define P_m128(i) (U128(ch[i], cl[i]) == school(a[i], b[i]))
#endif
/* for b < 2^32 the product is the two-term recombination (lemma schoolbook with b_h = 0) */
#define school8(a, b) ((((u128)M32(HI32(a), LO32(b))) << 32) + ((u128)M32(LO32(a), LO32(b))))
#define P_m72(i) (U128(ch[i], cl[i]) == school8(a[i], b[i]) && ch[i] < 256)
/* a^2 is the same product term as a*b with b = a (the uninterpreted 32x32 product is commutative by construction) */
#ifdef VF_MODULAR
#define P_sq128(i) (ch[i] == PRODH(a[i], a[i]) && cl[i] == PRODL(a[i], a[i]))
#else
#define P_sq128(i) (U128(ch[i], cl[i]) == school(a[i], a[i]))
#endif
#define P_mult(i) repr_of_T(c[i], redT(PRODH(a[i], b[i]), PRODL(a[i], b[i])))
#define P_mult8(i) repr_of_T(c[i], redT(HI64(school8(a[i], b[i])), LO64(school8(a[i], b[i]))))

#define P_canon(i) (c[i] == canon(a[i]))
UNC(toCanonical_avx512, TRUE_, P_canon)
#define P_add(i) (canon(c[i]) == addmod(canon(a[i]), canon(b[i])))
BINC(add_avx512, TRUE_, P_add)
/* documented: canonical second operand */
#define R_b_c(i) (b[i] < GP)
BINC(add_avx512_b_c, R_b_c, P_add)
#define P_sub(i) (canon(c[i]) == submod(canon(a[i]), canon(b[i])))
BINC(sub_avx512, TRUE_, P_sub)
BINC(sub_avx512_b_c, R_b_c, P_sub)

BIN2C(mult_avx512_128, TRUE_, P_m128)
#define R_b8(i) (b[i] < 256)
BIN2C(mult_avx512_72, R_b8, P_m72)
void k_square_avx512_128(u64 *ch, u64 *cl, const u64 *a)
  __CPROVER_requires(V4(ch) && V4(cl) && V4(a)) __CPROVER_assigns(__CPROVER_object_whole(ch), __CPROVER_object_whole(cl))
  __CPROVER_ensures(ALL4(P_sq128));
void h_k_square_avx512_128(void) { u64 *ch, *cl, *a; k_square_avx512_128(ch, cl, a); VF_SENTINEL; }

#define P_red128(i) repr_of_T(c[i], redT(a[i], b[i]))
BINC(reduce_avx512_128_64, TRUE_, P_red128)
#define R_ch32(i) (a[i] <= 0xFFFFFFFFUL)
BINC(reduce_avx512_96_64, R_ch32, P_red128)

BINC(mult_avx512, TRUE_, P_mult)
BINC(mult_avx512_8, R_b8, P_mult8)
void k_square_avx512(u64 *c, u64 *a)
  __CPROVER_requires(V4(c) && V4(a)) __CPROVER_assigns(__CPROVER_object_whole(c), __CPROVER_object_whole(a))
#define P_sq(i) (repr_of_T(c[i], redT(PRODH(__CPROVER_old(a[i]), __CPROVER_old(a[i])), PRODL(__CPROVER_old(a[i]), __CPROVER_old(a[i])))) && a[i] == __CPROVER_old(a[i]))
  __CPROVER_ensures(ALL4(P_sq));
void h_k_square_avx512(void) { u64 *c, *a; k_square_avx512(c, a); VF_SENTINEL; }

void k_add_avx512_ca(u64 *ca, const u64 *b) __CPROVER_requires(V4(ca) && V4(b)) __CPROVER_assigns(__CPROVER_object_whole(ca))
#define P_add_ca(i) (canon(ca[i]) == addmod(canon(__CPROVER_old(ca[i])), canon(b[i])))
  __CPROVER_ensures(ALL4(P_add_ca));
void h_k_add_avx512_ca(void) { u64 *c, *b; k_add_avx512_ca(c, b); VF_SENTINEL; }
void k_sub_avx512_cb(u64 *cb, const u64 *a) __CPROVER_requires(V4(cb) && V4(a)) __CPROVER_assigns(__CPROVER_object_whole(cb))
#define P_sub_cb(i) (canon(cb[i]) == submod(canon(a[i]), canon(__CPROVER_old(cb[i]))))
  __CPROVER_ensures(ALL4(P_sub_cb));
void h_k_sub_avx512_cb(void) { u64 *c, *a; k_sub_avx512_cb(c, a); VF_SENTINEL; }
void k_mult_avx512_cab(u64 *cab) __CPROVER_requires(V4(cab)) __CPROVER_assigns(__CPROVER_object_whole(cab))
#define P_mult_cab(i) repr_of_T(cab[i], redT(PRODH(__CPROVER_old(cab[i]), __CPROVER_old(cab[i])), PRODL(__CPROVER_old(cab[i]), __CPROVER_old(cab[i]))))
  __CPROVER_ensures(ALL4(P_mult_cab));
void h_k_mult_avx512_cab(void) { u64 *c; k_mult_avx512_cab(c); VF_SENTINEL; }

#define P_copy(i) (c[i] == a[i])
UNC(load_avx512, TRUE_, P_copy)
UNC(load_avx512_a, TRUE_, P_copy)
UNC(store_avx512, TRUE_, P_copy)
UNC(store_avx512_a, TRUE_, P_copy)
