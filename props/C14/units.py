"""C14 - AVX-512 dot / sparse / dense matrix kernels equal the product mod p, two interleaved states."""
import os, sys
sys.path.insert(0, os.path.dirname(os.path.dirname(os.path.dirname(os.path.abspath(__file__)))))
from vf.driver import Group, Unit
from vf import extract

PROPERTY = 'C14'
LEVEL = 'proof'
AVX = 'goldilocks_base_field_avx512.hpp'
V = ['__m512i&', 'const __m512i&', 'const __m512i&']
L1 = [('mult_avx512', V), ('add_avx512', V), ('add_avx512_b_c', None), ('mult_avx512_72', None), ('reduce_avx512_96_64', None)]
def filt(level):
    def f_(repo_src, dst):
        f = extract.base_filter(repo_src, dst)
        for n, pt in L1:
            f.drop_function(AVX, 'Goldilocks::' + n, ptypes=pt, expect=1, rule='E-callee')
        if level >= 2:
            for n in ('spmv_avx512_4x12', 'spmv_avx512_4x12_8'):
                f.drop_function(AVX, 'Goldilocks::' + n, expect=1, rule='E-callee')
        if level >= 3:
            for n in ('mmult_avx512_4x12', 'mmult_avx512_4x12_8'):
                f.drop_function(AVX, 'Goldilocks::' + n, expect=1, rule='E-callee')
        return f
    return f_
SRC = dict(cpp=['props/C14/wrappers.cpp', 'props/C14/forwarders.cpp'], c=['props/C14/contracts.c'])
GROUPS = {
    'l1': Group('l1', filt(1), cxx_defines=['__AVX512__', 'FWD_L1'], **SRC),
    'l2': Group('l2', filt(2), defines=['VF_MODULAR_DOT'], cxx_defines=['__AVX512__', 'FWD_L1', 'FWD_SPMV'], **SRC),
    'l3': Group('l3', filt(3), defines=['VF_MODULAR_DOT', 'VF_MODULAR_ROW'], cxx_defines=['__AVX512__', 'FWD_L1', 'FWD_SPMV', 'FWD_MM4'], **SRC),
}
for lane in range(8):
    GROUPS['l1_lane%d' % lane] = Group('l1_lane%d' % lane, filt(1), defines=['VF_LANE=%d' % lane], cxx_defines=['__AVX512__', 'FWD_L1'], **SRC)
A = 'src/' + AVX
K1 = ['k_mult_avx512', 'k_add_avx512', 'k_add_avx512_b_c', 'k_mult_avx512_72', 'k_reduce_avx512_96_64']
UNITS = []
for n in ('spmv_avx512_4x12', 'spmv_avx512_4x12_8'):
    for lane in range(8):
        UNITS.append(Unit('k_%s@lane%d' % (n, lane), 'l1_lane%d' % lane, 'k_' + n, replace=K1, functions=['Goldilocks::%s [lane %d] over the L1 contracts (%s)' % (n, lane, A)], timeout=900))
for n, sp in (('mmult_avx512_4x12', 'spmv_avx512_4x12'), ('mmult_avx512_4x12_8', 'spmv_avx512_4x12_8')):
    UNITS.append(Unit('k_' + n, 'l2', 'k_' + n, replace=K1 + ['k_' + sp], functions=['Goldilocks::%s over the contracts of %s and the adders (%s)' % (n, sp, A)], timeout=900))
for n, sp in (('mmult_avx512_4x12', 'spmv_avx512_4x12'), ('mmult_avx512_4x12_8', 'spmv_avx512_4x12_8')):
    for al in ('ca0', 'ca2'):
        UNITS.append(Unit('k_%s_%s' % (n, al), 'l2', 'k_%s_%s' % (n, al), replace=K1 + ['k_' + sp], functions=['Goldilocks::%s [output register == state register %s] (%s)' % (n, al[1:], A)], timeout=1200, tier='quick' if al == 'ca0' else 'thorough'))
UNITS.append(Unit('k_dot_avx512', 'l2', 'k_dot_avx512', replace=['k_spmv_avx512_4x12'], functions=['Goldilocks::dot_avx512 over the contract of spmv_avx512_4x12 (%s)' % A], timeout=600))
for n, mm in (('mmult_avx512', 'mmult_avx512_4x12'), ('mmult_avx512_8', 'mmult_avx512_4x12_8')):
    UNITS.append(Unit('k_' + n, 'l3', 'k_' + n, replace=['k_' + mm], functions=['Goldilocks::%s over the contract of %s (%s)' % (n, mm, A)], timeout=900))
import re
from vf.driver import import_units
_g, _u = import_units('C11', lambda n: re.match(r'k_(mult_avx512|add_avx512|add_avx512_b_c|mult_avx512_72|reduce_avx512_96_64|mult_avx512_128|reduce_avx512_128_64|store_avx512)(@.*)?$', n))
GROUPS.update(_g); UNITS += _u
NATIVE_FLAGS = ['-mavx2', '-mavx512f', '-D__AVX512__']
TRUSTED_BASE = [
    'L1 contracts of mult_avx512 / mult_avx512_72 in caller-facing form (canon(c) == MUL(a,b); 72-bit product halves) - enforced in C11 in linear witness form',
    'field multiplication is an uninterpreted commutative function of the canonical operands; DAG = sum of products mod p is lemma sumtree (Lean)',
    'L0 intrinsic table (set4, permutex2var, unpack, loads); CBMC/cadical; extraction rules under coverage.extraction',
]
ASSUMPTIONS = ['8-bit variants: every coefficient < 2^8 (documented)', 'build configuration -D__AVX512__']
EXPLANATION = ('As C13 on the 8-lane layout.  The canonical-second-operand requirement of add_avx512_b_c is a precondition of its contract and hence an '
               'assertion at every call site in spmv/mmult: a product in [p,2^64) fed to it fails that obligation.')
MANIFEST_ENTRY = dict(
    category='proof',
    technique='layered CBMC code contracts with uninterpreted field multiplication; documented operand requirements become call-site assertions',
    text='7 units: 3-block diagonal product, horizontal sums, 4x12 block product and 12x12 product for two interleaved states, incl. 8-bit variants, against exact expression DAGs for all pairs of states and all coefficient arrays.',
    note='Trusted: bridge from the C11 witness-form contracts to the uninterpreted-product form, AVX-512 intrinsic table, CBMC/cadical; Lean lemma for DAG = sum of products.')
NATIVE_SOURCES = ['props/C14/wrappers.cpp']

LEMMAS = ['sumtree3', 'sumtree4', 'dot8_term']
def extra_checks(rn, tier, ginfos):
    from vf import lean
    import os, json
    r = lean.check_lemmas(LEMMAS)
    if r.get('lean_failed'):
        path = os.path.join(os.environ.get('VF_REPLAY_DIR', os.path.join(os.path.dirname(os.path.dirname(os.path.dirname(os.path.abspath(__file__)))), 'replay', 'out')), PROPERTY)
        os.makedirs(path, exist_ok=True)
        f = os.path.join(path, 'lean-lemmas.json')
        json.dump(dict(property=PROPERTY, obligation='Lean lemmas ' + ', '.join(LEMMAS), verifier_output=r.get('lean_output', '')), open(f, 'w'), indent=1)
        r['violations'] = ['VIOLATION property=%s replay=%s [Lean lemma no longer accepted] no-failing-input-found' % (PROPERTY, f)]
    return r
