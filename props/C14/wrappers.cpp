// C14 wrappers: AVX-512 dot / sparse / dense matrix kernels on two interleaved states (lanes 0-3 state A, 4-7 state B).
#include "goldilocks_base_field.hpp"
#include "vf_wrap.h"
typedef Goldilocks::Element E;
#define LD(p) _mm512_loadu_si512((const void *)(p))
#define ST(p, v) _mm512_storeu_si512((void *)(p), (v))
#define IN_STATE VF_IN8(a0_, a0); VF_IN8(a1_, a1); VF_IN8(a2_, a2)
#define IN_B12 VF_IN4(b0_, b); VF_IN4(b1_, b + 4); VF_IN4(b2_, b + 8)
#define K_SPMV(name) extern "C" void k_##name(uint64_t *c, const uint64_t *a0, const uint64_t *a1, const uint64_t *a2, const uint64_t *b) \
  { IN_STATE; IN_B12; __m512i v0 = LD(a0), v1 = LD(a1), v2 = LD(a2), vc; Goldilocks::name(vc, v0, v1, v2, (const E *)b); ST(c, vc); }
K_SPMV(spmv_avx512_4x12)
K_SPMV(spmv_avx512_4x12_8)
K_SPMV(mmult_avx512_4x12)
K_SPMV(mmult_avx512_4x12_8)
// the 4x12 block product with the output register aliasing a state register (all parameters are references: an in-place update of one block)
#define K_MM4_CA(name) \
extern "C" void k_##name##_ca0(uint64_t *ca0, const uint64_t *a1, const uint64_t *a2, const uint64_t *b) \
  { VF_IN8(a0_, ca0); VF_IN8(a1_, a1); VF_IN8(a2_, a2); IN_B12; __m512i v0 = LD(ca0), v1 = LD(a1), v2 = LD(a2); Goldilocks::name(v0, v0, v1, v2, (const E *)b); ST(ca0, v0); } \
extern "C" void k_##name##_ca2(uint64_t *ca2, const uint64_t *a0, const uint64_t *a1, const uint64_t *b) \
  { VF_IN8(a0_, a0); VF_IN8(a1_, a1); VF_IN8(a2_, ca2); IN_B12; __m512i v0 = LD(a0), v1 = LD(a1), v2 = LD(ca2); Goldilocks::name(v2, v0, v1, v2, (const E *)b); ST(ca2, v2); }
K_MM4_CA(mmult_avx512_4x12)
K_MM4_CA(mmult_avx512_4x12_8)
extern "C" void k_dot_avx512(uint64_t *c2, const uint64_t *a0, const uint64_t *a1, const uint64_t *a2, const uint64_t *b)
  { IN_STATE; IN_B12; __m512i v0 = LD(a0), v1 = LD(a1), v2 = LD(a2); Goldilocks::dot_avx512((E *)c2, v0, v1, v2, (const E *)b); }
#define K_MM(name) extern "C" void k_##name(uint64_t *a0, uint64_t *a1, uint64_t *a2, const uint64_t *M) \
  { IN_STATE; __m512i v0 = LD(a0), v1 = LD(a1), v2 = LD(a2); Goldilocks::name(v0, v1, v2, (const E *)M); ST(a0, v0); ST(a1, v1); ST(a2, v2); }
K_MM(mmult_avx512)
K_MM(mmult_avx512_8)
