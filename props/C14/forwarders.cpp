// E-callee forwarders for C14 (scheme: props/C02/forwarders.cpp).
#include "goldilocks_base_field.hpp"
typedef Goldilocks::Element E;
#define CP8(d, s) do { for (int i_ = 0; i_ < 8; i_++) (d)[i_] = (s)[i_]; } while (0)
extern "C" {
void k_mult_avx512(uint64_t *c, const uint64_t *a, const uint64_t *b);
void k_add_avx512(uint64_t *c, const uint64_t *a, const uint64_t *b);
void k_add_avx512_b_c(uint64_t *c, const uint64_t *a, const uint64_t *b);
void k_mult_avx512_72(uint64_t *ch, uint64_t *cl, const uint64_t *a, const uint64_t *b);
void k_reduce_avx512_96_64(uint64_t *c, const uint64_t *ch, const uint64_t *cl);
void k_spmv_avx512_4x12(uint64_t *c, const uint64_t *a0, const uint64_t *a1, const uint64_t *a2, const uint64_t *b);
void k_spmv_avx512_4x12_8(uint64_t *c, const uint64_t *a0, const uint64_t *a1, const uint64_t *a2, const uint64_t *b);
void k_mmult_avx512_4x12(uint64_t *c, const uint64_t *a0, const uint64_t *a1, const uint64_t *a2, const uint64_t *b);
void k_mmult_avx512_4x12_8(uint64_t *c, const uint64_t *a0, const uint64_t *a1, const uint64_t *a2, const uint64_t *b);
}
#ifdef FWD_L1
#define FWD_BIN(name) void Goldilocks::name(__m512i &c, const __m512i &a, const __m512i &b) \
{ uint64_t tc[8], ta[8], tb[8]; CP8(ta, a.v); CP8(tb, b.v); k_##name(tc, ta, tb); CP8(c.v, tc); }
FWD_BIN(mult_avx512)
FWD_BIN(add_avx512)
FWD_BIN(add_avx512_b_c)
void Goldilocks::mult_avx512_72(__m512i &c_h, __m512i &c_l, const __m512i &a, const __m512i &b)
{ uint64_t th[8], tl[8], ta[8], tb[8]; CP8(ta, a.v); CP8(tb, b.v); k_mult_avx512_72(th, tl, ta, tb); CP8(c_h.v, th); CP8(c_l.v, tl); }
void Goldilocks::reduce_avx512_96_64(__m512i &c, const __m512i &c_h, const __m512i &c_l)
{ uint64_t tc[8], th[8], tl[8]; CP8(th, c_h.v); CP8(tl, c_l.v); k_reduce_avx512_96_64(tc, th, tl); CP8(c.v, tc); }
#endif
#define FWD_SP(name) void Goldilocks::name(__m512i &c, const __m512i &a0, const __m512i &a1, const __m512i &a2, const E *b) \
{ uint64_t tc[8], t0[8], t1[8], t2[8]; CP8(t0, a0.v); CP8(t1, a1.v); CP8(t2, a2.v); k_##name(tc, t0, t1, t2, (const uint64_t *)b); CP8(c.v, tc); }
#ifdef FWD_SPMV
FWD_SP(spmv_avx512_4x12)
FWD_SP(spmv_avx512_4x12_8)
#endif
#ifdef FWD_MM4
FWD_SP(mmult_avx512_4x12)
FWD_SP(mmult_avx512_4x12_8)
#endif
