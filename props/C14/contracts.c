/* C14 contracts: AVX-512 dot / sparse / dense matrix kernels equal the product mod p for each of the two interleaved states
 * (lanes 0-3 state A, lanes 4-7 state B; coefficients broadcast to both halves).
 * Layer L2: callers are checked against the L1 contracts of mult_avx512 / add_avx512 / add_avx512_b_c / mult_avx512_72 / reduce_avx512_96_64
 * (enforced against the real bodies in C11; here in their caller-facing form over the uninterpreted field product MUL). */
#include "spec.h"
#define VF_SENTINEL __CPROVER_assert(0, "vf_sentinel: harness reaches the point after the call")
#define V4(p) __CPROVER_is_fresh(p, 64)
#define VN(p, n) __CPROVER_is_fresh(p, 8 * (n))
#ifdef VF_LANE   /* lane-independent kernels: one unit per lane, callee contracts restricted to the same lane */
#define ALL4(F) (F(VF_LANE))
#else
#define ALL4(F) (F(0) && F(1) && F(2) && F(3) && F(4) && F(5) && F(6) && F(7))
#endif

/* ---------------- caller-facing L1 contracts (assumed here, see C11 for the enforced form) */
#define P_mult(i) (canon(c[i]) == MUL(a[i], b[i]) && MULC(a[i], b[i]))
void k_mult_avx512(u64 *c, const u64 *a, const u64 *b)
  __CPROVER_requires(V4(c) && V4(a) && V4(b)) __CPROVER_assigns(__CPROVER_object_whole(c)) __CPROVER_ensures(ALL4(P_mult));
#define P_add(i) (canon(c[i]) == addmod(canon(a[i]), canon(b[i])))
void k_add_avx512(u64 *c, const u64 *a, const u64 *b)
  __CPROVER_requires(V4(c) && V4(a) && V4(b)) __CPROVER_assigns(__CPROVER_object_whole(c)) __CPROVER_ensures(ALL4(P_add));
/* 72-bit product a*b (b < 2^8) as two uninterpreted halves; the high half is < 2^8 */
u64 __CPROVER_uninterpreted_ph8(u64, u64);
u64 __CPROVER_uninterpreted_pl8(u64, u64);
#define PH8(a, b) __CPROVER_uninterpreted_ph8(a, b)
#define PL8(a, b) __CPROVER_uninterpreted_pl8(a, b)
/* documented requirement of the _b_c adder: canonical second operand.  In the caller units this is an ASSERTION at every call site. */
#define R_b_c(i) (b[i] < GP)
void k_add_avx512_b_c(u64 *c, const u64 *a, const u64 *b)
  __CPROVER_requires(V4(c) && V4(a) && V4(b) && ALL4(R_b_c)) __CPROVER_assigns(__CPROVER_object_whole(c)) __CPROVER_ensures(ALL4(P_add));
#define R_b8(i) (b[i] < 256)
#define P_m72(i) (ch[i] == PH8(a[i], b[i]) && cl[i] == PL8(a[i], b[i]) && ch[i] < 256)
void k_mult_avx512_72(u64 *ch, u64 *cl, const u64 *a, const u64 *b)
  __CPROVER_requires(V4(ch) && V4(cl) && V4(a) && V4(b) && ALL4(R_b8)) __CPROVER_assigns(__CPROVER_object_whole(ch), __CPROVER_object_whole(cl)) __CPROVER_ensures(ALL4(P_m72));
#define R_ch32(i) (a[i] <= 0xFFFFFFFFUL)
#define P_red(i) repr_of_T(c[i], redT(a[i], b[i]))
void k_reduce_avx512_96_64(u64 *c, const u64 *a, const u64 *b)
  __CPROVER_requires(V4(c) && V4(a) && V4(b) && ALL4(R_ch32)) __CPROVER_assigns(__CPROVER_object_whole(c)) __CPROVER_ensures(ALL4(P_red));

/* ---------------- spec terms */
/* 3-block diagonal product, lane i:  a0[i]*B[i] + a1[i]*B[4+i] + a2[i]*B[8+i]   (left-to-right addmod chain) */
/* In a unit that checks a CALLER of the kernel defining a term, the term's definition is not unfolded: it is an
 * uninterpreted function of the same arguments (VF_MODULAR_DOT / VF_MODULAR_ROW); facts proved for every interpretation
 * hold for the defined one. */
#ifdef VF_MODULAR_DOT
u64 __CPROVER_uninterpreted_dot3(u64, u64, u64, u64, u64, u64);
#define DOT3(x0, x1, x2, B, i) __CPROVER_uninterpreted_dot3(x0, x1, x2, (B)[i], (B)[4 + (i)], (B)[8 + (i)])
#else
#define DOT3(x0, x1, x2, B, i) addmod(addmod(MUL(x0, (B)[i]), MUL(x1, (B)[4 + (i)])), MUL(x2, (B)[8 + (i)]))
#endif
/* the same with 8-bit coefficients, from the 72-bit products hj:lj = aj*bj :  sum lj + (sum hj)*(2^32-1)   (2^64 = 2^32-1 mod p) */
#ifdef VF_MODULAR_DOT
u64 __CPROVER_uninterpreted_dot8(u64, u64, u64, u64, u64, u64);
#define DOT8(x0, x1, x2, B, i) __CPROVER_uninterpreted_dot8(x0, x1, x2, (B)[i], (B)[4 + (i)], (B)[8 + (i)])
#else
#define HSUM8(x0, x1, x2, B, i) (PH8(x0, (B)[i]) + PH8(x1, (B)[4 + (i)]) + PH8(x2, (B)[8 + (i)]))
#define DOT8(x0, x1, x2, B, i) addmod(addmod(addmod(canon(PL8(x0, (B)[i])), canon(PL8(x1, (B)[4 + (i)]))), canon(PL8(x2, (B)[8 + (i)]))), \
                                      ((HSUM8(x0, x1, x2, B, i) << 32) - HSUM8(x0, x1, x2, B, i)))
#endif
/* horizontal sum in the kernels' association order */
#define HS4(t0, t1, t2, t3) addmod(addmod(t0, t1), addmod(t2, t3))
/* row r of a 4x12 block product: sum_j dot-lane j with coefficient row M[12r ..] */
#ifdef VF_MODULAR_ROW
u64 __CPROVER_uninterpreted_row_DOT3(u64, u64, u64, u64, u64, u64, u64, u64, u64, u64, u64, u64, u64, u64, u64, u64, u64, u64, u64, u64, u64, u64, u64, u64);
u64 __CPROVER_uninterpreted_row_DOT8(u64, u64, u64, u64, u64, u64, u64, u64, u64, u64, u64, u64, u64, u64, u64, u64, u64, u64, u64, u64, u64, u64, u64, u64);
#define ROWX(D, p0, p1, p2, p3, q0, q1, q2, q3, r0, r1, r2, r3, R) __CPROVER_uninterpreted_row_##D(p0, p1, p2, p3, q0, q1, q2, q3, r0, r1, r2, r3, \
   (R)[0], (R)[1], (R)[2], (R)[3], (R)[4], (R)[5], (R)[6], (R)[7], (R)[8], (R)[9], (R)[10], (R)[11])
#else
#define ROWX(D, p0, p1, p2, p3, q0, q1, q2, q3, r0, r1, r2, r3, R) HS4(D(p0, q0, r0, R, 0), D(p1, q1, r1, R, 1), D(p2, q2, r2, R, 2), D(p3, q3, r3, R, 3))
#endif

#define STATE_REQ V4(a0) && V4(a1) && V4(a2)
#define L4(i) ((i) & 3)          /* lane within its state */
#define S4(i) (((i) >> 2) << 2)  /* first lane of the state of lane i */
/* ---------------- spmv / dot: lane i uses coefficient column i mod 4 */
#define P_spmv(i) (canon(c[i]) == DOT3(a0[i], a1[i], a2[i], b, L4(i)))
#define SPMV_C(name, POST, EXTRA) void k_##name(u64 *c, const u64 *a0, const u64 *a1, const u64 *a2, const u64 *b) \
  __CPROVER_requires(V4(c) && STATE_REQ && VN(b, 12) EXTRA) __CPROVER_assigns(__CPROVER_object_whole(c)) __CPROVER_ensures(ALL4(POST)); \
  void h_k_##name(void) { u64 *c, *a0, *a1, *a2, *b; k_##name(c, a0, a1, a2, b); VF_SENTINEL; }
SPMV_C(spmv_avx512_4x12, P_spmv, )
#define B8_12 && b[0] < 256 && b[1] < 256 && b[2] < 256 && b[3] < 256 && b[4] < 256 && b[5] < 256 && b[6] < 256 && b[7] < 256 && b[8] < 256 && b[9] < 256 && b[10] < 256 && b[11] < 256
#define P_spmv8(i) (canon(c[i]) == DOT8(a0[i], a1[i], a2[i], b, L4(i)))
SPMV_C(spmv_avx512_4x12_8, P_spmv8, B8_12)

#define DOTS(s) HS4(DOT3(a0[s], a1[s], a2[s], b, 0), DOT3(a0[s + 1], a1[s + 1], a2[s + 1], b, 1), DOT3(a0[s + 2], a1[s + 2], a2[s + 2], b, 2), DOT3(a0[s + 3], a1[s + 3], a2[s + 3], b, 3))
void k_dot_avx512(u64 *c2, const u64 *a0, const u64 *a1, const u64 *a2, const u64 *b)
  __CPROVER_requires(VN(c2, 2) && STATE_REQ && VN(b, 12)) __CPROVER_assigns(__CPROVER_object_whole(c2))
  __CPROVER_ensures(canon(c2[0]) == DOTS(0) && canon(c2[1]) == DOTS(4));
void h_k_dot_avx512(void) { u64 *c, *a0, *a1, *a2, *b; k_dot_avx512(c, a0, a1, a2, b); VF_SENTINEL; }

/* ---------------- 4x12 block product: lane i is row (i mod 4) of the state of lane i */
static inline _Bool all_lt256(const u64 *M, unsigned n) { _Bool ok = 1; for (unsigned k = 0; k < n; k++) ok = ok && M[k] < 256; return ok; }
#define SROW(D, x0, x1, x2, M, i, r) ROWX(D, x0[S4(i)], x0[S4(i) + 1], x0[S4(i) + 2], x0[S4(i) + 3], x1[S4(i)], x1[S4(i) + 1], x1[S4(i) + 2], x1[S4(i) + 3], \
                                       x2[S4(i)], x2[S4(i) + 1], x2[S4(i) + 2], x2[S4(i) + 3], (M) + 12 * (r))
#define P_mm4(i) (canon(c[i]) == SROW(DOT3, a0, a1, a2, b, i, L4(i)))
#define MM4_C(name, POST, EXTRA) void k_##name(u64 *c, const u64 *a0, const u64 *a1, const u64 *a2, const u64 *b) \
  __CPROVER_requires(V4(c) && STATE_REQ && VN(b, 48) EXTRA) __CPROVER_assigns(__CPROVER_object_whole(c)) __CPROVER_ensures(ALL4(POST)); \
  void h_k_##name(void) { u64 *c, *a0, *a1, *a2, *b; k_##name(c, a0, a1, a2, b); VF_SENTINEL; }
MM4_C(mmult_avx512_4x12, P_mm4, )
#define P_mm4_8(i) (canon(c[i]) == SROW(DOT8, a0, a1, a2, b, i, L4(i)))
MM4_C(mmult_avx512_4x12_8, P_mm4_8, && all_lt256(b, 48))

/* the same with the output register aliasing state register a0 resp. a2 (result over the OLD contents) */
#define OLQ(x) __CPROVER_old(x)
#define SROW_O0(D, x0, x1, x2, M, i, r) ROWX(D, OLQ(x0[S4(i)]), OLQ(x0[S4(i) + 1]), OLQ(x0[S4(i) + 2]), OLQ(x0[S4(i) + 3]), x1[S4(i)], x1[S4(i) + 1], x1[S4(i) + 2], x1[S4(i) + 3], \
                                          x2[S4(i)], x2[S4(i) + 1], x2[S4(i) + 2], x2[S4(i) + 3], (M) + 12 * (r))
#define SROW_O2(D, x0, x1, x2, M, i, r) ROWX(D, x0[S4(i)], x0[S4(i) + 1], x0[S4(i) + 2], x0[S4(i) + 3], x1[S4(i)], x1[S4(i) + 1], x1[S4(i) + 2], x1[S4(i) + 3], \
                                          OLQ(x2[S4(i)]), OLQ(x2[S4(i) + 1]), OLQ(x2[S4(i) + 2]), OLQ(x2[S4(i) + 3]), (M) + 12 * (r))
#define MM4_CA(name, D, EXTRA) \
  void k_##name##_ca0(u64 *ca0, const u64 *a1, const u64 *a2, const u64 *b) \
  __CPROVER_requires(V4(ca0) && V4(a1) && V4(a2) && VN(b, 48) EXTRA) __CPROVER_assigns(__CPROVER_object_whole(ca0)) __CPROVER_ensures(ALL4(P_##name##_ca0)); \
  void h_k_##name##_ca0(void) { u64 *c, *a1, *a2, *b; k_##name##_ca0(c, a1, a2, b); VF_SENTINEL; } \
  void k_##name##_ca2(u64 *ca2, const u64 *a0, const u64 *a1, const u64 *b) \
  __CPROVER_requires(V4(ca2) && V4(a0) && V4(a1) && VN(b, 48) EXTRA) __CPROVER_assigns(__CPROVER_object_whole(ca2)) __CPROVER_ensures(ALL4(P_##name##_ca2)); \
  void h_k_##name##_ca2(void) { u64 *c, *a0, *a1, *b; k_##name##_ca2(c, a0, a1, b); VF_SENTINEL; }
#define P_mmult_avx512_4x12_ca0(i) (canon(ca0[i]) == SROW_O0(DOT3, ca0, a1, a2, b, i, L4(i)))
#define P_mmult_avx512_4x12_ca2(i) (canon(ca2[i]) == SROW_O2(DOT3, a0, a1, ca2, b, i, L4(i)))
#define P_mmult_avx512_4x12_8_ca0(i) (canon(ca0[i]) == SROW_O0(DOT8, ca0, a1, a2, b, i, L4(i)))
#define P_mmult_avx512_4x12_8_ca2(i) (canon(ca2[i]) == SROW_O2(DOT8, a0, a1, ca2, b, i, L4(i)))
MM4_CA(mmult_avx512_4x12, DOT3, )
MM4_CA(mmult_avx512_4x12_8, DOT8, && all_lt256(b, 48))

/* ---------------- 12x12 product in place: new a_k[i] is row 4k + (i mod 4) over the OLD state of lane i */
#define OL(x) __CPROVER_old(x)
#define OLDSROW(D, M, i, r) ROWX(D, OL(a0[S4(i)]), OL(a0[S4(i) + 1]), OL(a0[S4(i) + 2]), OL(a0[S4(i) + 3]), OL(a1[S4(i)]), OL(a1[S4(i) + 1]), OL(a1[S4(i) + 2]), OL(a1[S4(i) + 3]), \
                                 OL(a2[S4(i)]), OL(a2[S4(i) + 1]), OL(a2[S4(i) + 2]), OL(a2[S4(i) + 3]), (M) + 12 * (r))
#define P_mm(i) (canon(a0[i]) == OLDSROW(DOT3, M, i, L4(i)) && canon(a1[i]) == OLDSROW(DOT3, M, i, 4 + L4(i)) && canon(a2[i]) == OLDSROW(DOT3, M, i, 8 + L4(i)))
#define P_mm_8(i) (canon(a0[i]) == OLDSROW(DOT8, M, i, L4(i)) && canon(a1[i]) == OLDSROW(DOT8, M, i, 4 + L4(i)) && canon(a2[i]) == OLDSROW(DOT8, M, i, 8 + L4(i)))
#define MM_C(name, POST, EXTRA) void k_##name(u64 *a0, u64 *a1, u64 *a2, const u64 *M) \
  __CPROVER_requires(STATE_REQ && VN(M, 144) EXTRA) __CPROVER_assigns(__CPROVER_object_whole(a0), __CPROVER_object_whole(a1), __CPROVER_object_whole(a2)) __CPROVER_ensures(ALL4(POST)); \
  void h_k_##name(void) { u64 *a0, *a1, *a2, *M; k_##name(a0, a1, a2, M); VF_SENTINEL; }
MM_C(mmult_avx512, P_mm, )
MM_C(mmult_avx512_8, P_mm_8, && all_lt256(M, 144))

u64 vf_nondet_u64(void) { u64 x; return x; }
_Bool vf_nondet_bool(void) { _Bool x; return x; }
void vf_x86_mul64(u64 *rax, u64 *rdx, u64 src) { __CPROVER_assert(0, "scalar mul is not used by these kernels"); }
