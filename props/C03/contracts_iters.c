/* C03/C04/C05/C19 - structural contract of NTT_Goldilocks::NTT_iters (route M2: C-ified per run, src/gen_ntt.c).
 * The data path of a pass (the `#pragma omp parallel for` loop over the batches b) is outlined into the ghost monitor
 * vf_pass(..); reversePermutation and parcpy are monitors too.  For EVERY object parameter s <= 32, every size = 2^domainPow with
 * domainPow <= min(s, 30), every 64-bit nphase, both `inverse`, both `extend`, dst NULL or a separate buffer:
 *   - reversePermutation runs once, from src, into one of the two working buffers (dst_ or aux);
 *   - the passes execute the butterfly stages 1..domainPow, each exactly once, in order; s+si never exceeds domainPow (so the
 *     twiddle index idx << (s_obj - (s+si)) is a valid index into roots[0 .. 2^s_obj));
 *   - every pass reads the buffer the previous step wrote and writes the other one;
 *   - the scaling branch (INTT: 1/n resp. r_) is taken in the last pass and only there;
 *   - the result lands in dst_: the two assert(0) are unreachable and the fall-back parcpy happens only for size == 1. */
#include "spec.h"
#define VF_SENTINEL __CPROVER_assert(0, "vf_sentinel: harness reaches the point after the call")
typedef unsigned long uint64_t; typedef unsigned long u_int64_t; typedef unsigned int uint32_t; typedef unsigned int u_int32_t; typedef unsigned long size_t;
typedef struct { uint64_t fe; } GElement;
#define NULL ((void *)0)
#define bool _Bool
#define true 1
#define false 0
#define assert(e) __CPROVER_assert((e), "assert in the library source: " #e)
/* object fields of NTT_Goldilocks become file-scope variables */
u_int32_t s; u_int32_t nThreads; GElement *roots, *powTwoInv, *r, *r_; int extension;
void omp_set_dynamic(int x) {} void omp_set_num_threads(int x) {}

/* ---- ghost monitors */
GElement *g_src, *g_dst_, *g_aux, *g_cur; uint64_t g_domainPow, g_stage, g_size; _Bool g_bad, g_inverse, g_perm_done, g_scaled, g_copied; unsigned g_passes;
void NTT_Goldilocks_reversePermutation(GElement *dst, GElement *src, u_int64_t size, u_int64_t offset_cols, u_int64_t ncols, u_int64_t ncols_all)
{
  if (g_perm_done || src != g_src || (dst != g_dst_ && dst != g_aux) || size != g_size) g_bad = 1;
  g_perm_done = 1; g_cur = dst;
}
void Goldilocks_parcpy(GElement *dst, const GElement *src, uint64_t size, int nt) { if (g_size != 1 || dst != g_dst_ || src != g_cur) g_bad = 1; g_cur = dst; g_copied = 1; }
/* one pass: stages s .. s+sInc-1 on buffer a, transposed (and, in the final inverse pass, scaled) into a2 */
static void vf_pass(u_int64_t ps, u_int64_t sInc, u_int64_t maxBatchPow, u_int64_t domainPow, _Bool inverse, GElement *a, GElement *a2, u_int64_t batchSize, u_int64_t nBatches, u_int64_t size, _Bool plain_path)
{
  if (!g_perm_done || a != g_cur || a2 == a || (a2 != g_dst_ && a2 != g_aux)) g_bad = 1;            /* reads what was written last, writes the other buffer */
  if (ps != g_stage + 1 || sInc < 1 || g_stage + sInc > g_domainPow || domainPow != g_domainPow) g_bad = 1;   /* next stages, in order, inside the domain */
  if (ps + sInc - 1 > s) g_bad = 1;                                                                 /* root(s+si, j): shift s_obj - (s+si) must be >= 0 */
  if (batchSize != (1UL << sInc) || nBatches * batchSize != size) g_bad = 1;
  _Bool scaling = !plain_path;   /* plain_path = the code's own branch condition, lifted verbatim out of the outlined loop */
  _Bool last = (g_stage + sInc == g_domainPow);
  if (scaling != (last && g_inverse)) g_bad = 1;                                                    /* scaling exactly in the final pass of an inverse transform */
  if (scaling) g_scaled = 1;
  g_stage += sInc; g_cur = a2; g_passes++;
}
#include "gen_ntt.c"

void hl_NTT_iters(void)
{
  /* narrow nondeterministic sources keep the high bits of the operands of the two divisions syntactically zero; the case split on
   * nphase is exhaustive: [0, 255] and (255, 2^64) - in the second range the function clamps nphase to domainPow before using it */
  unsigned char s8, dp8, np8; _Bool np_big; u_int64_t np_hi; _Bool inverse, extend, dst_null;
  u_int32_t s_obj = s8; u_int64_t dp = dp8; u_int64_t nphase = np8;
  if (np_big) { __CPROVER_assume(np_hi > 255); nphase = np_hi; }
  __CPROVER_assume(s_obj <= 32 && dp <= s_obj && dp <= 30);
  uint64_t vf_ins = s_obj, vf_indp = dp, vf_innphase = nphase, vf_ininv = inverse; (void)vf_ins; (void)vf_indp; (void)vf_innphase; (void)vf_ininv;
  s = s_obj; nThreads = 4; extension = 1;
  GElement bsrc[1], bdst[1], baux[1];
  GElement *src = bsrc, *dst = dst_null ? (GElement *)NULL : bdst, *aux = baux;
  g_src = src; g_dst_ = dst_null ? src : dst; g_aux = aux; g_cur = NULL; g_domainPow = dp; g_size = 1UL << dp; g_stage = 0; g_bad = 0; g_inverse = inverse; g_perm_done = 0; g_scaled = 0; g_copied = 0; g_passes = 0;
  NTT_Goldilocks_NTT_iters(dst, src, 1UL << dp, 0, 1, 1, nphase, aux, inverse, extend);
  __CPROVER_assert(!g_bad, "NTT_iters.postcondition.1 (light): permutation once from src; stages in order, each once, inside the domain; buffers alternate; scaling only in the final inverse pass");
  __CPROVER_assert(g_stage == dp, "NTT_iters.postcondition.2 (light): all domainPow butterfly stages executed");
  __CPROVER_assert(g_cur == g_dst_, "NTT_iters.postcondition.3 (light): the result lands in the destination buffer");
  __CPROVER_assert(!inverse || dp == 0 || g_scaled, "NTT_iters.postcondition.4 (light): an inverse transform is scaled");
  __CPROVER_assert(s == s_obj && nThreads == 4 && extension == 1, "NTT_iters.postcondition.5 (light): the object's configuration (s, nThreads, extension) is unchanged (C19 frame)");
  VF_SENTINEL;
}
/* ---- log2 and the bit reversal BR */
void hl_log2(void) { u_int64_t size; __CPROVER_assume(size != 0); u_int32_t r = NTT_Goldilocks_log2(size);
  __CPROVER_assert(r < 64 && (size >> r) == 1, "log2.postcondition.1 (light): floor(log2(size))"); VF_SENTINEL; }
void hl_BR(void) { u_int64_t x, dp; __CPROVER_assume(dp >= 1 && dp <= 32 && x < (1UL << dp)); u_int64_t y = BR(x, dp); unsigned k; __CPROVER_assume(k < dp);
  __CPROVER_assert(y < (1UL << dp), "BR.postcondition.1 (light): result below 2^domainPow");
  __CPROVER_assert(((y >> k) & 1) == ((x >> (dp - 1 - k)) & 1), "BR.postcondition.2 (light): bit k of BR(x) is bit domainPow-1-k of x (ghost bit index)");
  __CPROVER_assert(BR(y, dp) == x, "BR.postcondition.3 (light): involution"); VF_SENTINEL; }
