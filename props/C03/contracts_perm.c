/* C03/C05/C12 - reversePermutation (route M2, src/gen_perm.c): loop contracts + ghost monitor of the row copies.
 *   out of place (dst != src): iteration i moves exactly row BR(i) of the source block (columns offset_cols .. +ncols of ncols_all)
 *     into row i of dst - or zero-fills row i when extension > 1 and the source row lies beyond size/extension;
 *   in place, extension <= 1: iteration i with BR(i) < i swaps rows i and BR(i) through a temporary (three copies), otherwise nothing;
 *   in place, extension > 1: NOT IMPLEMENTED in the library (assert(0)) - reachable from extendPol: known finding F3.
 * Row offsets r*ncols_all + offset_cols and i*ncols are uninterpreted products (rule M2-mul). dst / src are abstract objects. */
#include "spec.h"
#define VF_SENTINEL __CPROVER_assert(0, "vf_sentinel: harness reaches the point after the call")
typedef unsigned long uint64_t; typedef unsigned long u_int64_t; typedef unsigned int uint32_t; typedef unsigned int u_int32_t; typedef unsigned long size_t;
typedef struct { uint64_t fe; } GElement;
#define NULL ((void *)0)
#define assert(e) __CPROVER_assert((e), "assert in the library source: " #e)
u_int32_t s; u_int32_t nThreads; int extension;
uint64_t __CPROVER_uninterpreted_pmul(uint64_t, uint64_t);
#define PMUL(a, b) __CPROVER_uninterpreted_pmul(a, b)
const GElement *g_dst, *g_src; uint64_t g_size, g_dp, g_off, g_ncols, g_ncols_all, g_i, g_sub; _Bool g_bad, g_inplace; GElement *g_tmp;
#include "gen_perm_br.c"
static u_int64_t BRspec(u_int64_t x, u_int64_t dp) { return BR(x, dp); }   /* BR itself is characterised in unit BR */
#define OFF(p) ((uint64_t)__CPROVER_POINTER_OFFSET(p))
static void vf_memcpy(GElement *d, const GElement *sp, size_t n)
{
  uint64_t i = g_i, rr = BRspec(i, g_dp);
  if (n != g_ncols * 8 || i >= g_size) g_bad = 1;
  if (!g_inplace)
  { /* one copy per iteration: dst row i <- src row BR(i) of the selected column block */
    if (g_sub != 0 || !__CPROVER_same_object(d, g_dst) || OFF(d) != 8 * PMUL(i, g_ncols)) g_bad = 1;
    if (!__CPROVER_same_object(sp, g_src) || OFF(sp) != 8 * (PMUL(rr, g_ncols_all) + g_off)) g_bad = 1;
    if (extension > 1 && !(rr < g_size / (uint64_t)extension)) g_bad = 1;      /* with extension > 1 only rows of the polynomial (r < size/extension) are copied */
  }
  else
  { /* three copies: tmp <- row r ; row r <- row i ; row i <- tmp   (only when r < i) */
    if (!(rr < i)) g_bad = 1;
    if (g_sub == 0) { g_tmp = d; if (__CPROVER_same_object(d, g_dst) || !__CPROVER_same_object(sp, g_src) || OFF(sp) != 8 * PMUL(rr, g_ncols)) g_bad = 1; }
    else if (g_sub == 1) { if (!__CPROVER_same_object(d, g_dst) || OFF(d) != 8 * PMUL(rr, g_ncols) || !__CPROVER_same_object(sp, g_src) || OFF(sp) != 8 * PMUL(i, g_ncols)) g_bad = 1; }
    else if (g_sub == 2) { if (!__CPROVER_same_object(d, g_dst) || OFF(d) != 8 * PMUL(i, g_ncols) || sp != g_tmp) g_bad = 1; }
    else g_bad = 1;
  }
  g_sub++;
}
static void vf_memset(GElement *d, int c, size_t n)
{ /* zero fill of dst row i: only out of place with extension > 1, for a source row beyond the polynomial */
  if (BRspec(g_i, g_dp) < g_size / (uint64_t)extension) g_bad = 1;               /* zero fill exactly for the source rows beyond the polynomial */
  if (g_inplace || extension <= 1 || c != 0 || n != g_ncols * 8 || g_sub != 0 || !__CPROVER_same_object(d, g_dst) || OFF(d) != 8 * PMUL(g_i, g_ncols)) g_bad = 1;
  g_sub++;
}
/* AXIOM row-offsets (instantiated per row; true of the integer products while r*ncols_all + offset_cols does not wrap, offset_cols < ncols_all):
 *   r*ncols_all + offset_cols < q*ncols_all  <=>  r < q      - the code compares row OFFSETS, the contract speaks about ROWS */
#define VF_ROW_AXIOM(i) __CPROVER_assume(extension < 1 || ((PMUL(BR(i, g_dp), g_ncols_all) + g_off < PMUL(g_size / (uint64_t)extension, g_ncols_all)) == (BR(i, g_dp) < g_size / (uint64_t)extension)))
/* per-iteration bookkeeping: the loop contract ties the monitor's row index to the loop variable */
#define LOOP_ROWS \
  __CPROVER_assigns(i, g_i, g_sub, g_bad, g_tmp) \
  __CPROVER_loop_invariant(i <= size && !g_bad) \
  __CPROVER_decreases(size - i)
#include "gen_perm.c"
void hl_reversePermutation(void)
{
  unsigned char dp8; uint64_t ncols, ncols_all, offset_cols; _Bool inplace; int ext;
  __CPROVER_assume(dp8 <= 30 && ncols >= 1 && ncols <= ncols_all && offset_cols <= ncols_all - ncols && ncols_all <= (1UL << 20) && ext >= 1 && ext <= 1024);
  uint64_t size = 1UL << dp8; uint64_t vf_insize = size, vf_inext = (uint64_t)ext, vf_ininplace = inplace; (void)vf_insize; (void)vf_inext; (void)vf_ininplace;
  __CPROVER_assume(!inplace || (offset_cols == 0 && ncols == ncols_all));      /* documented: in place only for a single block */
#ifdef VF_F3_ONLY
  __CPROVER_assume(inplace && ext > 1);
#else
  __CPROVER_assume(!(inplace && ext > 1));
#endif
  GElement *dst = (GElement *)__CPROVER_allocate(0, 0), *src = inplace ? dst : (GElement *)__CPROVER_allocate(0, 0);
  s = 32; nThreads = 4; extension = ext;
  g_dst = dst; g_src = src; g_size = size; g_dp = dp8; g_off = offset_cols; g_ncols = ncols; g_ncols_all = ncols_all; g_i = 0; g_sub = 0; g_bad = 0; g_inplace = inplace; g_tmp = (GElement *)NULL;
  NTT_Goldilocks_reversePermutation(dst, src, size, offset_cols, ncols, ncols_all);
  __CPROVER_assert(!g_bad, "reversePermutation.postcondition.1 (light): every copy moves exactly the designated row (bit-reversed index, selected column block) of the designated buffer");
  VF_SENTINEL;
}
