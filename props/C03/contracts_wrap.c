/* C03/C04 - the NTT / INTT wrappers (route M2, src/gen_nttw.c): column-block split, scratch buffers, destination modes.
 * NTT_iters is a ghost monitor that fills its destination block with the marker MARK(block, row, column).
 * BOUNDED units (labelled bounded, not counted as proved): one per concrete (size, ncols) in {1,2,4} x {1,2,3,4}; nblock in {0..5, 2^64-1};
 * nphase: all 64-bit values;
 * buffer NULL or caller supplied; dst separate, equal to src, or NULL. */
#include "spec.h"
#define VF_SENTINEL __CPROVER_assert(0, "vf_sentinel: harness reaches the point after the call")
typedef unsigned long uint64_t; typedef unsigned long u_int64_t; typedef unsigned int uint32_t; typedef unsigned int u_int32_t; typedef unsigned long size_t;
typedef struct { uint64_t fe; } GElement;
#define NULL ((void *)0)
#define bool _Bool
#define true 1
#define false 0
void *malloc(size_t); void free(void *);
uint64_t __CPROVER_uninterpreted_mark(uint64_t, uint64_t, uint64_t);
#define MARK(b, r, c) __CPROVER_uninterpreted_mark(b, r, c)
GElement *g_src, *g_dst, *g_buf; uint64_t g_size, g_ncols, g_nphase, g_off, g_blocks, g_cols[4], g_offs[4]; _Bool g_bad, g_inverse, g_extend, g_nested;
static void vf_memcpy(GElement *d, const GElement *s_, size_t n) { __CPROVER_assert((n & 7) == 0 && n <= 32, "whole elements, at most 4"); for (size_t i = 0; i < n / 8; i++) d[i] = s_[i]; }
void NTT_Goldilocks_NTT_iters(GElement *dst, GElement *src, u_int64_t size, u_int64_t offset_cols, u_int64_t ncols, u_int64_t ncols_all, u_int64_t nphase, GElement *aux, bool inverse, bool extend)
{
  if (src != g_src || size != g_size || offset_cols != g_off || ncols_all != g_ncols || nphase != g_nphase || inverse != g_inverse || extend != g_extend) g_bad = 1;
  if (ncols < 1 || g_off + ncols > g_ncols || g_blocks >= 4) { g_bad = 1; return; }
  if (g_buf != NULL && aux != g_buf) g_bad = 1;
  if (aux == NULL || aux == src || aux == dst) g_bad = 1;
  GElement *d = dst == NULL ? src : dst;                                /* NTT_iters's own rule for a null destination */
  for (uint64_t r = 0; r < size; r++) for (uint64_t c = 0; c < ncols; c++) d[r * ncols + c].fe = MARK(g_blocks, r, c);   /* writes size*ncols elements of its destination */
  aux[size * ncols - 1].fe = 0;                                         /* and may use size*ncols elements of scratch */
  g_cols[g_blocks] = ncols; g_offs[g_blocks] = g_off; g_off += ncols; g_blocks++;
}
/* INTT: forwards to NTT with inverse = true; a NULL destination means in place */
GElement *n_dst, *n_src, *n_buf; uint64_t n_size, n_ncols, n_nphase, n_nblock; _Bool n_inv, n_ext; unsigned n_calls;
void NTT_Goldilocks_NTT_mon(GElement *dst, GElement *src, u_int64_t size, u_int64_t ncols, GElement *buffer, u_int64_t nphase, u_int64_t nblock, bool inverse, bool extend)
{ n_dst = dst; n_src = src; n_buf = buffer; n_size = size; n_ncols = ncols; n_nphase = nphase; n_nblock = nblock; n_inv = inverse; n_ext = extend; n_calls++; }
#include "gen_nttw.c"
#if VF_SIZE > 0 && VF_NCOLS > 0
static void run_NTT(uint64_t nblock)
{
  uint64_t size, ncols, nphase; _Bool inverse, extend, own_buffer; unsigned dmode;  /* dmode 0: separate dst, 1: dst == src, 2: dst == NULL */
  size = VF_SIZE; ncols = VF_NCOLS;   /* one unit per concrete (size, ncols); everything else symbolic */
  __CPROVER_assume(dmode <= 2);
  uint64_t vf_insize = size, vf_incols = ncols, vf_innblock = nblock, vf_indmode = dmode; (void)vf_insize; (void)vf_incols; (void)vf_innblock; (void)vf_indmode;
  GElement *src = (GElement *)malloc(size * ncols * 8), *dsep = (GElement *)malloc(size * ncols * 8), *buf = own_buffer ? (GElement *)malloc(size * ncols * 8) : (GElement *)NULL;
  __CPROVER_assume(src != NULL && dsep != NULL && (!own_buffer || buf != NULL));
  GElement *dst = dmode == 0 ? dsep : dmode == 1 ? src : (GElement *)NULL;
  GElement *out = dmode == 0 ? dsep : src;
  uint64_t gr, gc; __CPROVER_assume(gr < size && gc < ncols); uint64_t src_before = src[gr * ncols + gc].fe;
  g_src = src; g_dst = dst; g_buf = buf; g_size = size; g_ncols = ncols; g_nphase = nphase; g_off = 0; g_blocks = 0; g_bad = 0; g_inverse = inverse; g_extend = extend;
  NTT_Goldilocks_NTT(dst, src, size, ncols, buf, nphase, nblock, inverse, extend);
  __CPROVER_assert(!g_bad, "NTT.postcondition.1 (light): every NTT_iters call gets the caller's src/size/nphase/flags, the running column offset and a valid scratch buffer");
  __CPROVER_assert(g_off == ncols && g_blocks >= 1 && g_blocks <= ncols, "NTT.postcondition.2 (light): the column blocks cover [0, ncols) exactly (nblock clamped to [1, ncols])");
  uint64_t b = 0; for (uint64_t k = 0; k < 4; k++) if (k < g_blocks && gc >= g_offs[k] && gc < g_offs[k] + g_cols[k]) b = k;
  __CPROVER_assert(out[gr * ncols + gc].fe == MARK(b, gr, gc - g_offs[b]), "NTT.postcondition.3 (light): column c of row r of the destination holds block b's result (ghost row / column)");
  if (dmode == 0) __CPROVER_assert(src[gr * ncols + gc].fe == src_before, "NTT.postcondition.4 (light): a separate source is left unchanged");
  free(src); free(dsep); if (own_buffer) free(buf);
}
/* nblock: the values 0..5 and 2^64-1, one after the other (concrete: a symbolic nblock makes the scratch allocations symbolic-size objects, which does not scale) */
void hl_NTT(void)
{
  run_NTT(0); run_NTT(1); run_NTT(2); run_NTT(3); run_NTT(4); run_NTT(5); run_NTT(0xFFFFFFFFFFFFFFFFUL);
  VF_SENTINEL;
}
#else
void hl_NTT_noop(void)
{
  uint64_t size = VF_SIZE, ncols = VF_NCOLS, nphase, nblock; _Bool inverse, extend; __CPROVER_assume(size == 0 || ncols == 0);
  g_bad = 0; g_blocks = 0; g_src = (GElement *)NULL; g_size = size; g_ncols = ncols;
  NTT_Goldilocks_NTT((GElement *)NULL, (GElement *)NULL, size, ncols, (GElement *)NULL, nphase, nblock, inverse, extend);
  __CPROVER_assert(g_blocks == 0, "NTT.postcondition.5 (light): size 0 or zero columns is a no-op (no transform call, no allocation touched)");
  VF_SENTINEL;
}
#endif
void hl_INTT(void)
{
  GElement a[1], b[1], c[1]; uint64_t size, ncols, nphase, nblock; _Bool extend, dst_null, has_buf;
  GElement *dst = dst_null ? (GElement *)NULL : b, *buf = has_buf ? c : (GElement *)NULL; n_calls = 0;
  NTT_Goldilocks_INTT(dst, a, size, ncols, buf, nphase, nblock, extend);
  if (size == 0 || ncols == 0) __CPROVER_assert(n_calls == 0, "INTT.postcondition.1 (light): size 0 or zero columns is a no-op");
  else __CPROVER_assert(n_calls == 1 && n_inv && n_src == a && n_dst == (dst_null ? a : b) && n_buf == buf && n_size == size && n_ncols == ncols && n_nphase == nphase && n_nblock == nblock && n_ext == extend,
                        "INTT.postcondition.2 (light): one inverse transform with the caller's arguments; a NULL destination means in place");
  VF_SENTINEL;
}
