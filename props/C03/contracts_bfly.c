/* C03/C04 - contract of ONE butterfly group of NTT_Goldilocks::NTT_iters: the body of the innermost-but-one loop (over i), cut out of the
 * C-ified function on every run (gen_bfly.c), for one batch b, one stage s+si, one i and every column k:
 *   rows  lo = ki+ji  and  hi = ki+ji+2^si  of the pass buffer are replaced by  (lo + w*hi, lo - w*hi)  in the field, with the twiddle
 *   w = roots[j << (s_obj - (s+si))]  (= root(s+si, j), j the bit-transposed butterfly index), and nothing else is written.
 * The positions (ki, ji, offsets, j) are re-stated in the harness as they stand in the source: this pins the arithmetic and the twiddle
 * selection of the data path that the schedule unit abstracts into vf_pass; it does NOT show that these positions compute a DFT.
 * Bounded stand-in: at most 8 rows, 2 columns, object parameter s <= 5 (all element values, all consistent (s, sInc, si, b, i)). */
#include "spec.h"
#define VF_SENTINEL __CPROVER_assert(0, "vf_sentinel: harness reaches the point after the call")
typedef unsigned long uint64_t; typedef unsigned long u_int64_t; typedef unsigned int uint32_t; typedef unsigned int u_int32_t; typedef unsigned long size_t;
typedef struct { uint64_t fe; } GElement;
#define bool _Bool
/* object fields */
u_int32_t s; GElement *roots;
u64 __CPROVER_uninterpreted_roots(u64);
_Bool g_bad;
/* M2-abs: every read roots[E] goes through this accessor: the table is abstract (uninterpreted contents), the index must be inside it */
static GElement vf_roots_at(u_int64_t idx) { if (idx >= (1UL << s)) g_bad = 1; GElement r; r.fe = __CPROVER_uninterpreted_roots(idx); return r; }
/* assumed contracts of the scalar field operations (C01), exact addmod / submod, uninterpreted product */
static u64 w_mul_v(u64 a, u64 b) { u64 r_; __CPROVER_assume(canon(r_) == MUL(a, b) && MULC(a, b)); return r_; }
static u64 w_add_v(u64 a, u64 b) { u64 r_; __CPROVER_assume(canon(r_) == addmod(canon(a), canon(b))); return r_; }
static u64 w_sub_v(u64 a, u64 b) { u64 r_; __CPROVER_assume(canon(r_) == submod(canon(a), canon(b))); return r_; }
static GElement Goldilocks_mul_v(GElement x, GElement y) { GElement r; r.fe = w_mul_v(x.fe, y.fe); return r; }
#define Goldilocks_add(r, x, y) ((r).fe = w_add_v((x).fe, (y).fe))
#define Goldilocks_sub(r, x, y) ((r).fe = w_sub_v((x).fe, (y).fe))
#include "gen_bfly.c"

void hl_bfly(void)
{
  unsigned char s8, dp8, st8, inc8, si8, nc8; u_int64_t b, i;
  u_int32_t s_obj = s8; u_int64_t dp = dp8, st = st8, sInc = inc8, si = si8, ncols = nc8;
  __CPROVER_assume(s_obj <= 5 && dp >= 1 && dp <= 3 && dp <= s_obj && st >= 1 && sInc >= 1 && st + sInc - 1 <= dp && si < sInc && ncols >= 1 && ncols <= 2);
  u_int64_t size = 1UL << dp, batchSize = 1UL << sInc, nBatches = size >> sInc;
  __CPROVER_assume(b < nBatches && i < (batchSize >> 1));
  /* pass constants exactly as NTT_iters derives them */
  u_int64_t rs = st - 1, re = dp - 1, rb = 1UL << rs, rm = (1UL << (re - rs)) - 1;
  u_int64_t m = 1UL << (st + si), mdiv2 = m >> 1, mdiv2i = 1UL << si, mi = mdiv2i * 2;
  GElement a[16];
  s = s_obj;
  /* positions, as in the source */
  u_int64_t ki = b * batchSize + (i / mdiv2i) * mi, ji = i % mdiv2i;
  u_int64_t off_hi = (ki + ji + mdiv2i) * ncols, off_lo = (ki + ji) * ncols;
  u_int64_t j = (b * batchSize / 2 + i); j = (j & rm) * rb + (j >> (re - rs)); j = j % mdiv2;
  __CPROVER_assert(off_hi + ncols <= size * ncols && off_lo + ncols <= size * ncols, "bfly.postcondition.1 (light): both rows inside the pass buffer");
  u64 W = __CPROVER_uninterpreted_roots(j << (s_obj - (st + si)));
  u64 x0 = a[off_hi].fe, y0 = a[off_lo].fe, x1 = a[off_hi + (ncols > 1)].fe, y1 = a[off_lo + (ncols > 1)].fe;
  u_int64_t q; __CPROVER_assume(q < 16); u64 oq = a[q].fe;
  g_bad = 0;
  vf_bfly(a, b, batchSize, st, si, i, mdiv2i, mi, mdiv2, rm, rb, re, rs, ncols, dp, size, nBatches, sInc, m);   /* every local of NTT_iters that is in scope at the loop */
  __CPROVER_assert(!g_bad, "bfly.postcondition.2 (light): twiddle index inside roots[0 .. 2^s)");
#define BF(k, x, y) (canon(a[off_lo + k].fe) == addmod(MUL(W, x), canon(y)) && canon(a[off_hi + k].fe) == submod(canon(y), MUL(W, x)))
  __CPROVER_assert(BF(0, x0, y0) && (ncols < 2 || BF(1, x1, y1)),
                   "bfly.postcondition.3 (light): rows (lo, hi) := (lo + w*hi, lo - w*hi) with w = roots[j << (s - stage)], every column");
  __CPROVER_assert((q >= off_lo && q < off_lo + ncols) || (q >= off_hi && q < off_hi + ncols) || a[q].fe == oq, "bfly.postcondition.4 (light): nothing else written");
  VF_SENTINEL;
}
