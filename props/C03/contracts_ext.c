/* C05/C19 - extendPol (route M2, src/gen_ext.c): call sequence and the representation invariant of the cached coset table.
 * The unit starts from an ARBITRARY object state allowed by the invariant
 *      Inv:  r == NULL  or  (r, r_) are the tables computed for r_size
 * (so the statement holds after any call history, by induction over calls) and checks:
 *   - the extension object is built for (N_Extended, nThreads, N_Extended / N);
 *   - when INTT runs, the tables are the ones for THIS call's N (recomputed if they belonged to another N), Inv holds afterwards;
 *   - INTT(output, input, N, ncols, scratch, nphase, nblock, extend = true) then extension.NTT(output, output, N_Extended, ncols, scratch, nphase, nblock);
 *   - the scratch buffer is the caller's or a fresh allocation of N_Extended * ncols elements, released exactly once. */
#include "spec.h"
#define VF_SENTINEL __CPROVER_assert(0, "vf_sentinel: harness reaches the point after the call")
typedef unsigned long uint64_t; typedef unsigned long u_int64_t; typedef unsigned int uint32_t; typedef unsigned int u_int32_t; typedef unsigned long size_t;
typedef struct { uint64_t fe; } GElement;
#define NULL ((void *)0)
#define bool _Bool
#define true 1
#define false 0
void *malloc(size_t); void free(void *);
u_int32_t s; u_int32_t nThreads; GElement *roots, *powTwoInv, *r, *r_; u_int64_t r_size; int extension;
/* ghost: which N the tables pointed to by r / r_ really belong to */
uint64_t g_tableN; _Bool g_bad; unsigned g_step; uint64_t g_ext_size, g_ext_factor; GElement *g_scratch;
uint64_t a_N, a_Next, a_ncols, a_nphase, a_nblock; GElement *a_out, *a_in, *a_buf;
static void vf_ext_ctor(uint64_t maxDomainSize, u_int32_t nt, uint64_t ext) { if (g_step != 0 || nt != nThreads) g_bad = 1; g_ext_size = maxDomainSize; g_ext_factor = ext; g_step = 1; }
static void vf_delete_arr(GElement *p) { if (p == NULL) g_bad = 1; }
static GElement g_tab1[1], g_tab2[1];
void NTT_Goldilocks_computeR(int N) { if (r != NULL || r_ != NULL) g_bad = 1; /* would leak the old tables */ r = g_tab1; r_ = g_tab2; r_size = (u_int64_t)N; g_tableN = (uint64_t)N; }
void NTT_Goldilocks_INTT(GElement *dst, GElement *src, u_int64_t size, u_int64_t ncols, GElement *buffer, u_int64_t nphase, u_int64_t nblock, bool extend)
{
  if (g_step != 1 || dst != a_out || src != a_in || size != a_N || ncols != a_ncols || nphase != a_nphase || nblock != a_nblock || !extend) g_bad = 1;
  if (r == NULL || r_ == NULL || g_tableN != a_N) g_bad = 1;                    /* the scaling table used by this inverse transform must be the one for N */
  if (buffer == NULL || (a_buf != NULL && buffer != a_buf)) g_bad = 1;
  g_scratch = buffer; g_step = 2;
}
static void vf_ext_NTT(GElement *dst, GElement *src, u_int64_t size, u_int64_t ncols, GElement *buffer, u_int64_t nphase, u_int64_t nblock)
{
  if (g_step != 2 || dst != a_out || src != a_out || size != a_Next || ncols != a_ncols || buffer != g_scratch || nphase != a_nphase || nblock != a_nblock) g_bad = 1;
  if (g_ext_size != a_Next || g_ext_factor * a_N != a_Next) g_bad = 1;              /* extension object: domain N_Extended, zero-padding factor N_Extended / N */
  g_step = 3;
}
#include "gen_ext.c"
void hl_extendPol(void)
{
  GElement o[1], in_[1], bufobj[1]; _Bool has_buf, had_table, in_place; unsigned la, lb; uint64_t oldN, nd_ncols, nd_nphase, nd_nblock;
  a_ncols = nd_ncols; a_nphase = nd_nphase; a_nblock = nd_nblock;   /* file-scope variables start at zero in a plain harness: make them arbitrary */
  __CPROVER_assume(la <= 20 && lb <= 20 && la <= lb);                              /* N = 2^la <= N_Extended = 2^lb */
  a_N = 1UL << la; a_Next = 1UL << lb; a_out = o; a_in = in_place ? o : in_; a_buf = has_buf ? bufobj : (GElement *)NULL;
  __CPROVER_assume(a_ncols >= 1 && a_ncols <= (1UL << 20));
  uint64_t vf_inN = a_N, vf_inNext = a_Next, vf_inold = had_table ? oldN : 0; (void)vf_inN; (void)vf_inNext; (void)vf_inold;
  nThreads = 4; g_bad = 0; g_step = 0;
  if (had_table) { r = g_tab1; r_ = g_tab2; r_size = oldN; g_tableN = oldN; } else { r = (GElement *)NULL; r_ = (GElement *)NULL; g_tableN = 0; }   /* Inv */
  NTT_Goldilocks_extendPol(a_out, a_in, a_Next, a_N, a_ncols, a_buf, a_nphase, a_nblock);
  __CPROVER_assert(!g_bad && g_step == 3, "extendPol.postcondition.1 (light): extension object, inverse transform with the table for N, forward transform on the extended domain, in this order with the caller's arguments");
  __CPROVER_assert(r != NULL && r_ != NULL && r_size == a_N && g_tableN == r_size, "extendPol.postcondition.2 (light): representation invariant re-established: the cached tables belong to r_size == N");
  VF_SENTINEL;
}
