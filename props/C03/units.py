"""C03 (with C04, C05, C19) - structural contract of the NTT / INTT / extendPol machinery."""
import os, sys, re
sys.path.insert(0, os.path.dirname(os.path.dirname(os.path.dirname(os.path.abspath(__file__)))))
from vf.driver import Group, Unit
from vf import extract, cify

PROPERTY = 'C03'
LEVEL = 'proof'
N = 'ntt_goldilocks.cpp'
def filt(repo_src, dst):
    f = extract.Filter(repo_src, dst)
    f.check_macros()
    ren = [('log2', 'NTT_Goldilocks_log2'), ('reversePermutation', 'NTT_Goldilocks_reversePermutation'), ('Goldilocks::parcpy', 'Goldilocks_parcpy')]
    txt = 'static ' + cify.cify(f, 'ntt_goldilocks.hpp', 'log2', 'NTT_Goldilocks_log2', [], in_class=True)
    d = f.get_function(N, 'BR')
    txt += '/* M2: BR verbatim from %s line %d */\nstatic inline u_int64_t BR(u_int64_t x, u_int64_t domainPow)\n%s\n' % (N, d['line'], d['body'])
    f.note('M2-cify', N, 1, 0, 0, 'BR (verbatim)')
    # the branch that separates the plain transposition from the scaling (final inverse) path lives inside the outlined batch loop:
    # its condition is lifted, verbatim, into the monitor call, so that the monitor sees the code's own test and not a restatement
    full = cify.cify(f, N, 'NTT_Goldilocks::NTT_iters', 'NTT_Goldilocks_NTT_iters', ren, extra_rules=[(r'Goldilocks::parcpy', 'Goldilocks_parcpy')])
    bbody, _bh = cify.loop_body(full, 1)
    mc = re.findall(r'if \(([^{};]+)\)\s*\{\s*for \(u_int64_t x = 0; x < batchSize', bbody)
    # first match = the test guarding the memcpy transposition; the later ones (if (extend) ..) are inside its else branch
    if len(mc) < 1 or 'memcpy' not in bbody.split(mc[0], 1)[1].split('else', 1)[0]:
        raise extract.ExtractError('M2-outline: NTT_iters: the test that selects the plain (memcpy) transposition path was not found in the batch loop')
    it = cify.cify(f, N, 'NTT_Goldilocks::NTT_iters', 'NTT_Goldilocks_NTT_iters', ren,
                   cut_loops={1: 'vf_pass(s, sInc, maxBatchPow, domainPow, inverse, a, a2, batchSize, nBatches, size, (%s));' % mc[0].strip()},
                   extra_rules=[(r'Goldilocks::parcpy', 'Goldilocks_parcpy')])
    if 'vf_pass(' not in it or 'root(' in it:
        raise extract.ExtractError('M2-outline: NTT_iters: the batch loop was not cut as expected')
    for v in ('maxBatchPow', 'count', 'domainPow', 'tmp = a2'):
        if v not in it:
            raise extract.ExtractError('M2-outline: NTT_iters: scheduling variable %s no longer present' % v)
    f.files = {'gen_ntt.c': txt + it}
    return f
def filt_wrap(repo_src, dst):
    f = extract.Filter(repo_src, dst)
    f.check_macros()
    txt = cify.cify(f, N, 'NTT_Goldilocks::NTT', 'NTT_Goldilocks_NTT', [('NTT_Goldilocks::NTT_iters', 'NTT_Goldilocks_NTT_iters')], extra_rules=[(r'NTT_Goldilocks::NTT_iters', 'NTT_Goldilocks_NTT_iters')])
    txt += cify.cify(f, N, 'NTT_Goldilocks::INTT', 'NTT_Goldilocks_INTT', [('NTT', 'NTT_Goldilocks_NTT_mon')])
    f.files = {'gen_nttw.c': txt}
    return f
GROUPS = {'iters': Group('iters', filt, c=['props/C03/contracts_iters.c'], repo_cpp=[])}
def filt_bfly(repo_src, dst):
    f = extract.Filter(repo_src, dst)
    f.check_macros()
    it = cify.cify(f, N, 'NTT_Goldilocks::NTT_iters', 'NTT_Goldilocks_NTT_iters', [], extra_rules=[(r'Goldilocks::parcpy', 'Goldilocks_parcpy')])
    body, head = cify.loop_body(it, 3)
    if not re.match(r'\s*u_int64_t i = 0; i < \(batchSize >> 1\); i\+\+\s*$', head) or 'offset1' not in body or 'offset2' not in body:
        raise extract.ExtractError('M2-body: NTT_iters: the butterfly loop (4th loop, over i) was not found as expected')
    # M2-op: the overloaded product of two elements ; callee names ; M2-abs: table reads through the accessor
    body, n1 = re.subn(r'\b(\w+) \* (a\[[^\]]*\])', r'Goldilocks_mul_v(\1, \2)', body)
    body = body.replace('Goldilocks::add(', 'Goldilocks_add(').replace('Goldilocks::sub(', 'Goldilocks_sub(')
    body, n2 = re.subn(r'\broot\(', 'NTT_Goldilocks_root(', body)
    body, n3 = re.subn(r'\broots\[([^\]]*)\]', r'vf_roots_at(\1)', body)
    if n1 < 1 or (n2 + n3) < 1:
        raise extract.ExtractError('M2-body: butterfly: expected the element product w * a[..] and a twiddle read (found %d products, %d root() calls, %d roots[] reads)' % (n1, n2, n3))
    d = f.get_function('ntt_goldilocks.hpp', 'root', in_class=True)
    rb_, n4 = re.subn(r'\broots\[([^\]]*)\]', r'vf_roots_at(\1)', d['body'])
    if n4 != 1:
        raise extract.ExtractError('M2-abs: root(): expected exactly one read of roots[..]')
    txt = '/* M2: root() from ntt_goldilocks.hpp line %d (by value), butterfly group = body of the loop over i of NTT_iters */\n' % d['line']
    txt += 'static GElement NTT_Goldilocks_root(u_int32_t domainPow, u_int64_t idx)\n%s\n' % rb_
    txt += 'void vf_bfly(GElement *a, u_int64_t b, u_int64_t batchSize, u_int64_t s, u_int64_t si, u_int64_t i, u_int64_t mdiv2i, u_int64_t mi, u_int64_t mdiv2, u_int64_t rm, u_int64_t rb, u_int64_t re, u_int64_t rs, u_int64_t ncols, u_int64_t domainPow, u_int64_t size, u_int64_t nBatches, u_int64_t sInc, u_int64_t m)\n%s\n' % body
    f.note('M2-body', N, 1, 0, 0, 'butterfly group of NTT_iters')
    f.files = {'gen_bfly.c': txt}
    return f
GROUPS['bfly'] = Group('bfly', filt_bfly, c=['props/C03/contracts_bfly.c'], repo_cpp=[])
def filt_ext(repo_src, dst):
    f = extract.Filter(repo_src, dst)
    f.check_macros()
    txt = cify.cify(f, N, 'NTT_Goldilocks::extendPol', 'NTT_Goldilocks_extendPol', [('computeR', 'NTT_Goldilocks_computeR'), ('INTT', 'NTT_Goldilocks_INTT')],
                    extra_rules=[(r'NTT_Goldilocks ntt_extension\((.*)\);', r'vf_ext_ctor(\1);'), (r'delete\[\] (\w+);', r'vf_delete_arr(\1);'), (r'ntt_extension\.NTT\(', 'vf_ext_NTT(')])
    for pat in ('vf_ext_ctor(', 'vf_ext_NTT(', 'NTT_Goldilocks_INTT(', 'NTT_Goldilocks_computeR('):
        if pat not in txt:
            raise extract.ExtractError('M2: extendPol: expected rewrite %r did not fire' % pat)
    f.files = {'gen_ext.c': txt}
    return f
GROUPS['ext'] = Group('ext', filt_ext, c=['props/C03/contracts_ext.c'], repo_cpp=[])
def filt_perm(repo_src, dst):
    f = extract.Filter(repo_src, dst)
    f.check_macros()
    d = f.get_function(N, 'BR')
    txt = 'static inline u_int64_t BR(u_int64_t x, u_int64_t domainPow)\n%s\n' % d['body']
    txt += 'static ' + cify.cify(f, 'ntt_goldilocks.hpp', 'log2', 'NTT_Goldilocks_log2', [], in_class=True)
    # the monitor needs the loop variable: every row loop gets `g_i = i; g_sub = 0;` as its first statement (rule M2-ghost)
    body = cify.cify(f, N, 'NTT_Goldilocks::reversePermutation', 'NTT_Goldilocks_reversePermutation', [('log2', 'NTT_Goldilocks_log2')],
                     {0: 'LOOP_ROWS', 1: 'LOOP_ROWS', 2: 'LOOP_ROWS'},
                     extra_rules=[(r'\br \* ncols_all\b', 'PMUL(r, ncols_all)'), (r'\bi \* ncols\b', 'PMUL(i, ncols)'), (r'\br \* ncols\b', 'PMUL(r, ncols)'),
                                  (r'\(size / extension\) \* ncols_all', 'PMUL(size / extension, ncols_all)'), (r'GElement tmp\[ncols\];', 'GElement tmp[1]; /* M2: local row buffer, abstract */')])
    body, n = re.subn(r'(LOOP_ROWS\s*\{)', r'\1 g_i = i; g_sub = 0; VF_ROW_AXIOM(i); /* M2-ghost */', body)
    if n != 3 or body.count('PMUL(') < 6:
        raise extract.ExtractError('M2: reversePermutation: expected 3 row loops and the row-offset products (found %d loops, %d products)' % (n, body.count('PMUL(')))
    f.files = {'gen_perm_br.c': txt, 'gen_perm.c': body}
    return f
GROUPS['perm'] = Group('perm', filt_perm, c=['props/C03/contracts_perm.c'], repo_cpp=[])
GROUPS['perm_f3'] = Group('perm_f3', filt_perm, c=['props/C03/contracts_perm.c'], defines=['VF_F3_ONLY'], repo_cpp=[])
SHAPES = [(sz, nc) for sz in (1, 2, 4) for nc in (1, 2, 3, 4)] + [(0, 3), (4, 0)]
for _sz, _nc in SHAPES:
    GROUPS['wrap_%d_%d' % (_sz, _nc)] = Group('wrap_%d_%d' % (_sz, _nc), filt_wrap, c=['props/C03/contracts_wrap.c'], defines=['VF_SIZE=%d' % _sz, 'VF_NCOLS=%d' % _nc], repo_cpp=[])
CHK = ['--bounds-check', '--pointer-check', '--undefined-shift-check', '--signed-overflow-check', '--div-by-zero-check']
UNITS = [
    Unit('NTT_iters_schedule', 'iters', 'NTT_Goldilocks_NTT_iters', harness='hl_NTT_iters', light=True, checks=CHK, flags=['--unwind', '33', '--unwinding-assertions'],
         loops='unwind 33 (domainPow <= 30: pass loop and log2 loop at most 31 iterations), unwinding assertions on', timeout=600,
         functions=['NTT_Goldilocks::NTT_iters (src/%s) [C-ified; batch data path outlined into a ghost monitor]' % N]),
    Unit('log2', 'iters', 'NTT_Goldilocks_log2', harness='hl_log2', light=True, checks=CHK, flags=['--unwind', '66', '--unwinding-assertions'], loops='unwind 66',
         functions=['NTT_Goldilocks::log2 (src/ntt_goldilocks.hpp)']),
    Unit('BR', 'iters', 'BR', harness='hl_BR', light=True, checks=CHK, functions=['BR bit reversal (src/%s)' % N]),
]
UNITS.append(Unit('NTT_butterfly', 'bfly', 'vf_bfly', harness='hl_bfly', light=True, checks=CHK, flags=['--unwind', '3', '--unwinding-assertions'], loops='unwind 3 (ncols <= 2)', timeout=900,
                  bounded='at most 8 rows, 2 columns, object parameter s <= 5; every consistent (stage, sInc, si, batch, i), all element values',
                  functions=['NTT_Goldilocks::NTT_iters - butterfly group (body of the loop over i) and NTT_Goldilocks::root (src/%s, ntt_goldilocks.hpp) [C-ified: twiddle selection and butterfly arithmetic]' % N]))
for _sz, _nc in SHAPES:
    if _sz and _nc:
        UNITS.append(Unit('NTT_wrapper@%dx%d' % (_sz, _nc), 'wrap_%d_%d' % (_sz, _nc), 'NTT_Goldilocks_NTT', harness='hl_NTT', light=True, checks=CHK + ['--memory-leak-check', '--no-malloc-may-fail'],
                          flags=['--unwind', '6', '--unwinding-assertions'], loops='unwind 6', tier='quick' if (_sz, _nc) in ((2, 3), (4, 2), (1, 1), (4, 4)) else 'thorough',
                          bounded='size = %d, ncols = %d, nblock in {0..5, 2^64-1} (concrete); nphase and flags symbolic; buffer NULL / caller; dst separate / == src / NULL' % (_sz, _nc), timeout=600,
                          functions=['NTT_Goldilocks::NTT (src/%s) [C-ified; NTT_iters is a marker-writing monitor]' % N]))
    else:
        UNITS.append(Unit('NTT_noop@%dx%d' % (_sz, _nc), 'wrap_%d_%d' % (_sz, _nc), 'NTT_Goldilocks_NTT', harness='hl_NTT_noop', light=True, checks=CHK, flags=['--unwind', '6', '--unwinding-assertions'], loops='unwind 6',
                          bounded='size = %d, ncols = %d' % (_sz, _nc), functions=['NTT_Goldilocks::NTT with size == 0 or ncols == 0 (src/%s)' % N]))
UNITS.append(Unit('INTT_wrapper', 'wrap_2_3', 'NTT_Goldilocks_INTT', harness='hl_INTT', light=True, checks=CHK, functions=['NTT_Goldilocks::INTT (src/%s) [C-ified; NTT is a monitor]' % N]))
UNITS.append(Unit('extendPol', 'ext', 'NTT_Goldilocks_extendPol', harness='hl_extendPol', light=True, checks=CHK + ['--memory-leak-check', '--no-malloc-may-fail'], timeout=600,
                  functions=['NTT_Goldilocks::extendPol (src/%s) [C-ified; constructor / computeR / INTT / extension NTT are monitors; arbitrary prior object state under the invariant]' % N]))
UNITS.append(Unit('reversePermutation', 'perm', 'NTT_Goldilocks_reversePermutation', harness='hl_reversePermutation', light=True, loops='contract', checks=CHK, flags=['--unwind', '33', '--unwinding-assertions'], timeout=600,
                  functions=['NTT_Goldilocks::reversePermutation (src/%s) [C-ified, loop contracts, ghost monitor of the row copies; all sizes 2^k, k <= 30; out of place (extension any) and in place (extension <= 1)]' % N]))
F3_UNIT = Unit('reversePermutation_inplace_ext', 'perm_f3', 'NTT_Goldilocks_reversePermutation', harness='hl_reversePermutation', light=True, loops='contract', checks=CHK, flags=['--unwind', '33', '--unwinding-assertions'], timeout=600,
                  functions=['NTT_Goldilocks::reversePermutation, in place with extension > 1 (src/%s) [the branch extendPol reaches for an even clamped phase count]' % N])
if os.environ.get('VF_WITH_F3', '1') == '1':
    UNITS.append(F3_UNIT)
TRUSTED_BASE = ['M2 C-ification + outlining of the batch loop (rule checks the cut statement exists and the scheduling variables are still present)',
                'AXIOM row-offsets (reversePermutation): r*ncols_all + offset_cols < q*ncols_all <=> r < q, assumed per row for the uninterpreted row-offset products',
                'butterfly-group unit: assumed contracts of the scalar add / sub / mul (C01); the positions ki, ji, j are re-stated from the source, not derived from a DFT specification',
                'the DFT equation itself is NOT decided by this check (see MANIFEST level_note)', 'CBMC, cadical']
ASSUMPTIONS = ['object domain s <= 32, size = 2^domainPow with domainPow <= min(s, 30)']
EXPLANATION = 'Schedule contract for all (s, domainPow, nphase, inverse, extend, dst NULL or not): scalar skeleton, complete by unwinding to the operand width.'
MANIFEST_ENTRY = dict(category='proof', technique='CBMC on the C-ified NTT_iters with the batch data path outlined into a ghost monitor (schedule / buffer / stage contract), complete unwinding',
    text='Structural contract of the transform for every (object size, transform size, nphase, inverse, extend, dst mode): stages 1..log2(n) each once in order, twiddle indices inside the table, alternating buffers, scaling only in the final inverse pass, result in the destination buffer (the library asserts are unreachable).',
    note='The functional equation out = DFT(in) is NOT proved (needs induction over a recursive spec + field algebra); block split / permutation / extendPol: see evidence and DESIGN.md.')
