/* C17 contracts: strided / offset / broadcast base-field wrappers move the right data.
 * One generated contract per overload (contracts_gen.inc, from the declarations of goldilocks_base_field.hpp):
 *   requires  every array operand is allocated with EXACTLY the extent its stride / index list designates
 *             (max designated index + 1 elements; strides and index entries up to 2^20), result positions pairwise distinct
 *   assigns   exactly the designated result positions
 *   ensures   lane k of the result = op(k-th designated operand elements)   (copy: bit-identical; add/sub: canon-level with
 *             the defined addmod/submod; mul: the uninterpreted field product over the contracts of the multiplication kernels) */
#include "spec.h"
#define VF_SENTINEL __CPROVER_assert(0, "vf_sentinel: harness reaches the point after the call")
u64 vf_nondet_u64(void) { u64 x; return x; }
_Bool vf_nondet_bool(void) { _Bool x; return x; }
#ifdef VF_MULUNITS
void vf_x86_mul64(u64 *rax, u64 *rdx, u64 src) { __CPROVER_assert(0, "scalar mul is replaced by its contract in these units"); }
/* caller-facing contracts of the multiplication kernels (enforced in C01 / C02 / C11) */
u64 w_mul_v(u64 a, u64 b) __CPROVER_assigns() __CPROVER_ensures(canon(__CPROVER_return_value) == MUL(a, b) && MULC(a, b));
#define PM(i) (canon(c[i]) == MUL(a[i], b[i]) && MULC(a[i], b[i]))
void k_mult_avx(u64 *c, const u64 *a, const u64 *b)
  __CPROVER_requires(__CPROVER_is_fresh(c, 32) && __CPROVER_is_fresh(a, 32) && __CPROVER_is_fresh(b, 32)) __CPROVER_assigns(__CPROVER_object_whole(c))
  __CPROVER_ensures(PM(0) && PM(1) && PM(2) && PM(3));
void k_mult_avx512(u64 *c, const u64 *a, const u64 *b)
  __CPROVER_requires(__CPROVER_is_fresh(c, 64) && __CPROVER_is_fresh(a, 64) && __CPROVER_is_fresh(b, 64)) __CPROVER_assigns(__CPROVER_object_whole(c))
  __CPROVER_ensures(PM(0) && PM(1) && PM(2) && PM(3) && PM(4) && PM(5) && PM(6) && PM(7));
#else
void vf_x86_mul64(u64 *rax, u64 *rdx, u64 src) { __CPROVER_assert(0, "no multiplication in the copy/add/sub helpers"); }
#endif
/* strides / index lists: symbolic in the default build; with -DVF_SHAPE=n they are fixed to the n-th concrete shape (bounded
 * stand-in for the overloads whose fully symbolic unit does not finish in the budget):
 *   1: unit strides, reversed index lists         2: stride 3, index lists (5k+3) mod 11
 *   3: input stride 0 (broadcast of element 0), output stride 2, input index lists constant 5, output lists spread
 *   4: large stride 4099, index lists k*131 */
#if VF_SHAPE == 1
static const u64 SHI4[4] = {3,2,1,0}, SHI8[8] = {7,6,5,4,3,2,1,0}, SHO4[4] = {3,2,1,0}, SHO8[8] = {7,6,5,4,3,2,1,0};
#define SH_STRIDE_IN(p) ((u64)1)
#define SH_STRIDE_OUT(p) ((u64)1)
#define SH_IDX_IN4(p) ((u64 *)SHI4)
#define SH_IDX_IN8(p) ((u64 *)SHI8)
#define SH_IDX_OUT4(p) ((u64 *)SHO4)
#define SH_IDX_OUT8(p) ((u64 *)SHO8)
#define FRESH_IDX(p, n) 1
#define STRIDEPAT_IN(s) ((s) == 1)
#define STRIDEPAT_OUT(s) ((s) == 1)
#define IDXPAT_IN4(p) (p[0] == 3 && p[1] == 2 && p[2] == 1 && p[3] == 0)
#define IDXPAT_IN8(p) (p[0] == 7 && p[1] == 6 && p[2] == 5 && p[3] == 4 && p[4] == 3 && p[5] == 2 && p[6] == 1 && p[7] == 0)
#define IDXPAT_OUT4(p) IDXPAT_IN4(p)
#define IDXPAT_OUT8(p) IDXPAT_IN8(p)
#elif VF_SHAPE == 2
static const u64 SHI4[4] = {3,8,2,7}, SHI8[8] = {3,8,2,7,1,6,0,5}, SHO4[4] = {3,8,2,7}, SHO8[8] = {3,8,2,7,1,6,0,5};
#define SH_STRIDE_IN(p) ((u64)3)
#define SH_STRIDE_OUT(p) ((u64)3)
#define SH_IDX_IN4(p) ((u64 *)SHI4)
#define SH_IDX_IN8(p) ((u64 *)SHI8)
#define SH_IDX_OUT4(p) ((u64 *)SHO4)
#define SH_IDX_OUT8(p) ((u64 *)SHO8)
#define FRESH_IDX(p, n) 1
#define STRIDEPAT_IN(s) ((s) == 3)
#define STRIDEPAT_OUT(s) ((s) == 3)
#define IDXPAT_IN4(p) (p[0] == 3 && p[1] == 8 && p[2] == 2 && p[3] == 7)
#define IDXPAT_IN8(p) (p[0] == 3 && p[1] == 8 && p[2] == 2 && p[3] == 7 && p[4] == 1 && p[5] == 6 && p[6] == 0 && p[7] == 5)
#define IDXPAT_OUT4(p) IDXPAT_IN4(p)
#define IDXPAT_OUT8(p) IDXPAT_IN8(p)
#elif VF_SHAPE == 3
static const u64 SHI4[4] = {5,5,5,5}, SHI8[8] = {5,5,5,5,5,5,5,5}, SHO4[4] = {3,8,2,7}, SHO8[8] = {3,8,2,7,1,6,0,5};
#define SH_STRIDE_IN(p) ((u64)0)
#define SH_STRIDE_OUT(p) ((u64)2)
#define SH_IDX_IN4(p) ((u64 *)SHI4)
#define SH_IDX_IN8(p) ((u64 *)SHI8)
#define SH_IDX_OUT4(p) ((u64 *)SHO4)
#define SH_IDX_OUT8(p) ((u64 *)SHO8)
#define FRESH_IDX(p, n) 1
#define STRIDEPAT_IN(s) ((s) == 0)
#define STRIDEPAT_OUT(s) ((s) == 2)
#define IDXPAT_IN4(p) (p[0] == 5 && p[1] == 5 && p[2] == 5 && p[3] == 5)
#define IDXPAT_IN8(p) (p[0] == 5 && p[1] == 5 && p[2] == 5 && p[3] == 5 && p[4] == 5 && p[5] == 5 && p[6] == 5 && p[7] == 5)
#define IDXPAT_OUT4(p) (p[0] == 3 && p[1] == 8 && p[2] == 2 && p[3] == 7)
#define IDXPAT_OUT8(p) (p[0] == 3 && p[1] == 8 && p[2] == 2 && p[3] == 7 && p[4] == 1 && p[5] == 6 && p[6] == 0 && p[7] == 5)
#elif VF_SHAPE == 4
static const u64 SHI4[4] = {0,131,262,393}, SHI8[8] = {0,131,262,393,524,655,786,917}, SHO4[4] = {0,131,262,393}, SHO8[8] = {0,131,262,393,524,655,786,917};
#define SH_STRIDE_IN(p) ((u64)4099)
#define SH_STRIDE_OUT(p) ((u64)4099)
#define SH_IDX_IN4(p) ((u64 *)SHI4)
#define SH_IDX_IN8(p) ((u64 *)SHI8)
#define SH_IDX_OUT4(p) ((u64 *)SHO4)
#define SH_IDX_OUT8(p) ((u64 *)SHO8)
#define FRESH_IDX(p, n) 1
#define STRIDEPAT_IN(s) ((s) == 4099)
#define STRIDEPAT_OUT(s) ((s) == 4099)
#define IDXPAT_IN4(p) (p[0] == 0 && p[1] == 131 && p[2] == 262 && p[3] == 393)
#define IDXPAT_IN8(p) (p[0] == 0 && p[1] == 131 && p[2] == 262 && p[3] == 393 && p[4] == 524 && p[5] == 655 && p[6] == 786 && p[7] == 917)
#define IDXPAT_OUT4(p) IDXPAT_IN4(p)
#define IDXPAT_OUT8(p) IDXPAT_IN8(p)
#else
#define SH_STRIDE_IN(p) p
#define SH_STRIDE_OUT(p) p
#define SH_IDX_IN4(p) p
#define SH_IDX_IN8(p) p
#define SH_IDX_OUT4(p) p
#define SH_IDX_OUT8(p) p
#define FRESH_IDX(p, n) __CPROVER_is_fresh(p, n)
#define STRIDEPAT_IN(s) 1
#define STRIDEPAT_OUT(s) 1
#define IDXPAT_IN4(p) 1
#define IDXPAT_IN8(p) 1
#define IDXPAT_OUT4(p) 1
#define IDXPAT_OUT8(p) 1
#endif
#include "contracts_gen.inc"
