/* C17 contracts: strided / offset / broadcast base-field wrappers move the right data.
 * One generated contract per overload (contracts_gen.inc, from the declarations of goldilocks_base_field.hpp):
 *   requires  every array operand is allocated with EXACTLY the extent its stride / index list designates
 *             (max designated index + 1 elements; strides and index entries up to 2^20), result positions pairwise distinct
 *   assigns   exactly the designated result positions
 *   ensures   lane k of the result = op(k-th designated operand elements)   (copy: bit-identical; add/sub: canon-level with
 *             the defined addmod/submod; mul: the uninterpreted field product over the contracts of the multiplication kernels) */
#include "spec.h"
#define VF_SENTINEL __CPROVER_assert(0, "vf_sentinel: harness reaches the point after the call")
u64 vf_nondet_u64(void) { u64 x; return x; }
_Bool vf_nondet_bool(void) { _Bool x; return x; }
#ifdef VF_MULUNITS
void vf_x86_mul64(u64 *rax, u64 *rdx, u64 src) { __CPROVER_assert(0, "scalar mul is replaced by its contract in these units"); }
/* caller-facing contracts of the multiplication kernels (enforced in C01 / C02 / C11) */
u64 w_mul_v(u64 a, u64 b) __CPROVER_assigns() __CPROVER_ensures(canon(__CPROVER_return_value) == MUL(a, b) && MULC(a, b));
#define PM(i) (canon(c[i]) == MUL(a[i], b[i]) && MULC(a[i], b[i]))
void k_mult_avx(u64 *c, const u64 *a, const u64 *b)
  __CPROVER_requires(__CPROVER_is_fresh(c, 32) && __CPROVER_is_fresh(a, 32) && __CPROVER_is_fresh(b, 32)) __CPROVER_assigns(__CPROVER_object_whole(c))
  __CPROVER_ensures(PM(0) && PM(1) && PM(2) && PM(3));
void k_mult_avx512(u64 *c, const u64 *a, const u64 *b)
  __CPROVER_requires(__CPROVER_is_fresh(c, 64) && __CPROVER_is_fresh(a, 64) && __CPROVER_is_fresh(b, 64)) __CPROVER_assigns(__CPROVER_object_whole(c))
  __CPROVER_ensures(PM(0) && PM(1) && PM(2) && PM(3) && PM(4) && PM(5) && PM(6) && PM(7));
#else
void vf_x86_mul64(u64 *rax, u64 *rdx, u64 src) { __CPROVER_assert(0, "no multiplication in the copy/add/sub helpers"); }
#endif
/* index lists: symbolic by default; in the *_p1 / *_p2 groups they are fixed to one concrete pattern (bounded stand-in for the
 * overloads whose symbolic-index-list unit does not finish): p1 = reversed identity, p2 = (5k+3) mod 11 (distinct, non-monotone) */
#if VF_IDXPAT == 1
#define IDXPAT4(p) (p[0] == 3 && p[1] == 2 && p[2] == 1 && p[3] == 0)
#define IDXPAT8(p) (p[0] == 7 && p[1] == 6 && p[2] == 5 && p[3] == 4 && p[4] == 3 && p[5] == 2 && p[6] == 1 && p[7] == 0)
#elif VF_IDXPAT == 2
#define IDXPAT4(p) (p[0] == 3 && p[1] == 8 && p[2] == 2 && p[3] == 7)
#define IDXPAT8(p) (p[0] == 3 && p[1] == 8 && p[2] == 2 && p[3] == 7 && p[4] == 1 && p[5] == 6 && p[6] == 0 && p[7] == 5)
#else
#define IDXPAT4(p) 1
#define IDXPAT8(p) 1
#endif
#include "contracts_gen.inc"
