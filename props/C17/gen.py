#!/usr/bin/env python3
"""Generator for C17 (and imported by C16): one wrapper + contract + harness per overload of the strided / offset / broadcast
base-field helpers, derived from the DECLARATIONS in /repo/src/goldilocks_base_field.hpp.

Reading of a declaration (checked by the proofs themselves: a wrong reading makes the unit fail on the unchanged tree):
  first parameter            = result: `Element *` contiguous array | `__m256i &` register | array + following stride / index list
  `const Element *`          = operand array; a stride / index-list parameter named offset_a/offset1/stride_a (b/2 resp.) or, for the
                               name `stride`, directly following it, designates element k as X[k*stride] resp. X[idx[k]]
  `const Element` (value/ref)= broadcast scalar ; `const __m256i &` = register operand (lane k)
  lane k of the result       = op(operand_a at its k-th designated position, operand_b at its k-th designated position)
The generated files are committed; `units.py` re-derives the declaration list on every run and aborts (exit 2) if it differs."""
import json, os, re, sys
HERE = os.path.dirname(os.path.abspath(__file__))
FAMS = ['copy_batch', 'add_batch', 'sub_batch', 'mul_batch', 'copy_avx', 'add_avx', 'sub_avx', 'mul_avx', 'copy_avx512', 'add_avx512', 'sub_avx512', 'mul_avx512']
SB = 1 << 20   # bound on strides and index entries
# declared in goldilocks_base_field.hpp but defined nowhere in /repo/src (calling it does not link): no body to verify, no native wrapper
UNDEFINED = {'g17_008_add_batch'}


def declarations(hdr_text):
    out = []
    for m in re.finditer(r'^\s*static void (\w+)\(([^;]*)\);', hdr_text, re.M):
        name, params = m.group(1), re.sub(r'\s+', ' ', m.group(2)).strip()
        if name not in FAMS:
            continue
        plist = [p.strip() for p in params.split(',')]
        # the L1 kernels add_avx(__m256i&, const __m256i&, const __m256i&) etc. belong to C02/C11
        if all(re.match(r'(const )?__m(256|512)i &\w+$', p) for p in plist) and name in ('add_avx', 'sub_avx', 'add_avx512', 'sub_avx512'):
            continue
        out.append((name, plist))
    return out


def classify(p):
    m = re.match(r'^(?:const )?uint64_t (\w+)\[(\w+)\]$', p)
    if m: return ('idx', m.group(1))
    m = re.match(r'^(?:const )?uint64_t (\w+)$', p)
    if m: return ('stride', m.group(1))
    m = re.match(r'^Element \*(\w+)$', p) or re.match(r'^Goldilocks::Element \*(\w+)$', p)
    if m: return ('outarr', m.group(1))
    m = re.match(r'^const (?:Goldilocks::)?Element \*(\w+)$', p)
    if m: return ('inarr', m.group(1))
    m = re.match(r'^const (?:Goldilocks::)?Element &?(\w+)$', p)
    if m: return ('scalar', m.group(1))
    m = re.match(r'^__m(256|512)i &(\w+)$', p)
    if m: return ('outreg', m.group(2))
    m = re.match(r'^const __m(256|512)i &(\w+)$', p)
    if m: return ('inreg', m.group(2))
    raise SystemExit('gen: cannot classify parameter %r' % p)


def shape(name, plist):
    """returns dict(result=..., ops=[...], order=[(kind, role)...]) ; each of result/ops: dict(kind, pos) with pos in none|stride|idx"""
    W = 8 if name.endswith('512') else 4
    kinds = [classify(p) for p in plist]
    objs = []      # array/reg/scalar params in order: [dict(kind,name,pos,posname,argi)]
    for i, (k, n) in enumerate(kinds):
        if k in ('outarr', 'inarr', 'scalar', 'outreg', 'inreg'):
            objs.append(dict(kind=k, name=n, pos='none', argi=i))
    if objs[0]['kind'] not in ('outarr', 'outreg'):
        raise SystemExit('gen: first parameter of %s is not a result' % name)
    def attach(i, k, n):
        base = re.sub(r'^(offsets|offset|stride)_?', '', n)
        cand = None
        if base in ('c', 'dst'): cand = objs[0]
        elif base in ('a', '1'): cand = objs[1]
        elif base in ('b', '2'): cand = objs[2] if len(objs) > 2 else None
        elif base == '':   # plain `stride`: the array parameter directly preceding it
            prev = [o for o in objs if o['argi'] < i]
            cand = prev[-1] if prev else None
        if cand is None or cand['kind'] not in ('outarr', 'inarr') or cand['pos'] != 'none':
            raise SystemExit('gen: cannot attach %s %s in %s(%s)' % (k, n, name, ', '.join(plist)))
        cand['pos'] = k; cand['posname'] = n; cand['posargi'] = i
    for i, (k, n) in enumerate(kinds):
        if k in ('stride', 'idx'):
            attach(i, k, n)
    return dict(name=name, W=W, params=plist, result=objs[0], ops=objs[1:], kinds=kinds)


def gen(decls, prefix='g17'):
    wr, ct, table, orc = [], [], [], []
    for n, (name, plist) in enumerate(decls):
        sh = shape(name, plist)
        W = sh['W']; V = '__m512i' if W == 8 else '__m256i'
        LD = '_mm512_loadu_si512((const void *)(%s))' if W == 8 else '_mm256_loadu_si256((const __m256i *)(%s))'
        ST = '_mm512_storeu_si512((void *)(%s), %s)' if W == 8 else '_mm256_storeu_si256((__m256i *)(%s), %s)'
        op = name.split('_')[0]
        uid = '%s_%03d_%s' % (prefix, n, name)
        # ---------- wrapper
        cparams, pre, args, post = [], [], [None] * len(plist), []
        cdecl = []
        for o in [sh['result']] + sh['ops']:
            i = o['argi']; v = 'p%d' % i
            if o['kind'] == 'outarr': cparams.append((i, 'uint64_t *%s' % v)); args[i] = '(E *)%s' % v; cdecl.append((i, 'u64 *%s' % v))
            elif o['kind'] == 'inarr': cparams.append((i, 'const uint64_t *%s' % v)); args[i] = '(const E *)%s' % v; cdecl.append((i, 'const u64 *%s' % v))
            elif o['kind'] == 'scalar': cparams.append((i, 'uint64_t %s' % v)); pre.append('E e%d = {%s};' % (i, v)); args[i] = 'e%d' % i; cdecl.append((i, 'u64 %s' % v))
            elif o['kind'] == 'outreg': cparams.append((i, 'uint64_t *%s' % v)); pre.append('%s v%d;' % (V, i)); args[i] = 'v%d' % i; post.append((ST % (v, 'v%d' % i)) + ';'); cdecl.append((i, 'u64 *%s' % v))
            elif o['kind'] == 'inreg': cparams.append((i, 'const uint64_t *%s' % v)); pre.append('%s v%d = %s;' % (V, i, LD % v)); args[i] = 'v%d' % i; cdecl.append((i, 'const u64 *%s' % v))
            if o['pos'] == 'stride': j = o['posargi']; cparams.append((j, 'uint64_t p%d' % j)); args[j] = 'p%d' % j; cdecl.append((j, 'u64 p%d' % j))
            if o['pos'] == 'idx': j = o['posargi']; cparams.append((j, 'uint64_t *p%d' % j)); args[j] = 'p%d' % j; cdecl.append((j, 'u64 *p%d' % j))
        cparams.sort(); cdecl.sort()
        wr.append('extern "C" void %s(%s) { %s Goldilocks::%s(%s); %s }' % (uid, ', '.join(p for _, p in cparams), ' '.join(pre), name, ', '.join(args), ' '.join(post)))
        # ---------- contract
        def at(o, k):   # C expression: element designated for lane k
            v = 'p%d' % o['argi']
            if o['kind'] == 'scalar': return v
            if o['kind'] in ('outreg', 'inreg'): return '%s[%d]' % (v, k)
            if o['pos'] == 'none': return '%s[%d]' % (v, k)
            if o['pos'] == 'stride': return '%s[%d * p%d]' % (v, k, o['posargi'])
            return '%s[p%d[%d]]' % (v, o['posargi'], k)
        req, assigns = [], []
        for o in [sh['result']] + sh['ops']:
            v = 'p%d' % o['argi']
            if o['kind'] == 'scalar': continue
            if o['kind'] in ('outreg', 'inreg') or o['pos'] == 'none': ext = '%d' % W
            elif o['pos'] == 'stride': j = o['posargi']; req.append('p%d <= %d' % (j, SB)); req.append('%s(p%d)' % ('STRIDEPAT_OUT' if o is sh['result'] else 'STRIDEPAT_IN', j)); ext = '(%d * p%d + 1)' % (W - 1, j)
            else:
                j = o['posargi']; req.append('FRESH_IDX(p%d, %d)' % (j, 8 * W)); req += ['p%d[%d] <= %d' % (j, k, SB) for k in range(W)]; req.append('%s%d(p%d)' % ('IDXPAT_OUT' if o is sh['result'] else 'IDXPAT_IN', W, j))
                mx = 'p%d[0]' % j
                for k in range(1, W): mx = '(%s > p%d[%d] ? %s : p%d[%d])' % (mx, j, k, mx, j, k)
                ext = '(%s + 1)' % mx
            req.append('__CPROVER_is_fresh(%s, 8 * %s)' % (v, ext))
        r = sh['result']
        if r['pos'] == 'stride': req.append('p%d >= 1' % r['posargi'])     # distinct result positions
        if r['pos'] == 'idx':
            j = r['posargi']; req += ['p%d[%d] != p%d[%d]' % (j, a, j, b) for a in range(W) for b in range(a + 1, W)]
        assigns = [at(r, k) for k in range(W)]
        ens = []
        for k in range(W):
            R = at(r, k)
            if op == 'copy': ens.append('%s == __CPROVER_old(%s)' % (R, at(sh['ops'][0], k)))
            else:
                A, B = '__CPROVER_old(%s)' % at(sh['ops'][0], k), '__CPROVER_old(%s)' % at(sh['ops'][1], k)
                if sh['ops'][0]['kind'] == 'scalar': A = at(sh['ops'][0], k)
                if sh['ops'][1]['kind'] == 'scalar': B = at(sh['ops'][1], k)
                f = {'add': 'canon(%s) == addmod(canon(%s), canon(%s))', 'sub': 'canon(%s) == submod(canon(%s), canon(%s))', 'mul': 'canon(%s) == MUL(%s, %s)'}[op]
                ens.append(f % (R, A, B))
        ct.append('void %s(%s)\n  __CPROVER_requires(%s)\n  __CPROVER_assigns(%s)\n  __CPROVER_ensures(%s);' % (
            uid, ', '.join(p for _, p in cdecl), ' && '.join(req) or '1', ', '.join(assigns), ' && '.join(ens)))
        # harness: nondet arguments; strides / index lists go through SH_* macros (literal constants in the concrete-shape builds)
        special = {}
        for o in [sh['result']] + sh['ops']:
            io = 'OUT' if o is sh['result'] else 'IN'
            if o['pos'] == 'stride': special[o['posargi']] = 'SH_STRIDE_%s(p%d)' % (io, o['posargi'])
            if o['pos'] == 'idx': special[o['posargi']] = 'SH_IDX_%s%d(p%d)' % (io, W, o['posargi'])
        hv = '; '.join(re.sub(r'^const ', '', p) for _, p in cdecl)
        ct.append('void h_%s(void) { %s; %s(%s); VF_SENTINEL; }\n' % (uid, hv, uid, ', '.join(special.get(i, p.split()[-1].lstrip('*')) for i, p in cdecl)))
        # ---------- native scanning oracle (C++), same reading
        O = []
        allo = [sh['result']] + sh['ops']
        sp = {}
        for o in allo:
            io = 'o' if o is sh['result'] else 'i'
            if o['pos'] == 'stride': O.append('const uint64_t p%d = SHP[shape].s%s;' % (o['posargi'], io)); sp[o['posargi']] = 1
            if o['pos'] == 'idx': O.append('uint64_t *p%d = (uint64_t *)SHP[shape].x%s%d;' % (o['posargi'], io, W)); sp[o['posargi']] = 1
        exts = []
        for o in allo:
            v = 'p%d' % o['argi']
            if o['kind'] == 'scalar': O.append('uint64_t %s = R.next();' % v); continue
            if o['kind'] in ('outreg', 'inreg') or o['pos'] == 'none': ext = '%d' % W
            elif o['pos'] == 'stride': ext = '(%d * p%d + 1)' % (W - 1, o['posargi'])
            else: ext = '(*std::max_element(p%d, p%d + %d) + 1)' % (o['posargi'], o['posargi'], W)
            exts.append(v)
            O.append('std::vector<uint64_t> V%s(%s); for (auto &x_ : V%s) x_ = R.next(); uint64_t *%s = V%s.data(); std::vector<uint64_t> O%s(V%s);' % (v, ext, v, v, v, v, v))
        O.append('%s(%s);' % (uid, ', '.join(p.split()[-1].lstrip('*') for _, p in cdecl)))
        def oat(o, k):
            e = at(o, k)
            return e if o['kind'] == 'scalar' else 'O' + e
        for k in range(W):
            Rk = at(r, k)
            if op == 'copy': O.append('CHK(%s == %s, %d);' % (Rk, oat(sh['ops'][0], k), k))
            else: O.append('CHK(%s %% REF_P == ref_%s(%s, %s), %d);' % (Rk, op, oat(sh['ops'][0], k), oat(sh['ops'][1], k), k))
        rv = 'p%d' % r['argi']
        def ridx(k):
            e = at(r, k); return e[e.index('[') + 1:-1]
        if r['kind'] == 'outarr' and r['pos'] != 'none':
            O.append('{ std::vector<char> des(V%s.size(), 0); %s for (size_t j = 0; j < V%s.size(); j++) FRAME(des[j] || V%s[j] == O%s[j], "%s", j); }' % (rv, ' '.join('des[%s] = 1;' % ridx(k) for k in range(W)), rv, rv, rv, rv))
        for v in exts:
            if v != rv: O.append('for (size_t j = 0; j < V%s.size(); j++) FRAME(V%s[j] == O%s[j], "%s", j);' % (v, v, v, v))
        pro = 'void %s(%s);' % (uid, ', '.join(p for _, p in cparams))
        orc.append((uid, name.endswith('512'), pro, 'static int t_%s(int shape, vf_rng &R) { int bad = 0; const char *U = "%s";\n  %s\n  return bad; }' % (uid, uid, '\n  '.join(O))))
        table.append(dict(uid=uid, name=name, params=plist, op=op, W=W, has_idx=any(o['pos'] == 'idx' for o in [sh['result']] + sh['ops']), has_stride=any(o['pos'] == 'stride' for o in [sh['result']] + sh['ops'])))
    return wr, ct, table, orc


if __name__ == '__main__':
    hdr = open('/repo/src/goldilocks_base_field.hpp').read()
    decls = declarations(hdr)
    wr, ct, table, orc = gen(decls)
    open(os.path.join(HERE, 'wrappers.cpp'), 'w').write('// GENERATED by props/C17/gen.py -- do not edit\n#include "goldilocks_base_field.hpp"\ntypedef Goldilocks::Element E;\n' +
        '\n'.join(('#ifndef VF_NATIVE\n%s\n#endif' % w) if t['uid'] in UNDEFINED else (w if not t['name'].endswith('512') else '#ifdef __AVX512__\n%s\n#endif' % w) for w, t in zip(wr, table)) + '\n')
    json.dump(table, open(os.path.join(HERE, 'table.json'), 'w'), indent=0)
    open(os.path.join(HERE, 'contracts_gen.inc'), 'w').write('/* GENERATED by props/C17/gen.py -- do not edit */\n' + '\n'.join(ct) + '\n')
    # native oracle tables (shape numbers as in contracts.c)
    orc = [x for x in orc if x[0] not in UNDEFINED]
    SH = {1: (1, 1, [3, 2, 1, 0], [7, 6, 5, 4, 3, 2, 1, 0], [3, 2, 1, 0], [7, 6, 5, 4, 3, 2, 1, 0]),
          2: (3, 3, [3, 8, 2, 7], [3, 8, 2, 7, 1, 6, 0, 5], [3, 8, 2, 7], [3, 8, 2, 7, 1, 6, 0, 5]),
          3: (0, 2, [5, 5, 5, 5], [5] * 8, [3, 8, 2, 7], [3, 8, 2, 7, 1, 6, 0, 5]),
          4: (4099, 4099, [0, 131, 262, 393], [131 * k for k in range(8)], [0, 131, 262, 393], [131 * k for k in range(8)])}
    A = lambda xs: '{' + ','.join(str(x) for x in xs) + '}'
    L = ['// GENERATED by props/C17/gen.py -- do not edit', 'struct vf_shape { uint64_t si, so; uint64_t xi4[4], xi8[8], xo4[4], xo8[8]; };', 'static vf_shape SHP[5] = { {},']
    for n_ in (1, 2, 3, 4): L.append('  { %d, %d, %s, %s, %s, %s },' % (SH[n_][0], SH[n_][1], A(SH[n_][2]), A(SH[n_][3]), A(SH[n_][4]), A(SH[n_][5])))
    L.append('};\nextern "C" {')
    for uid, is512, pro, body in orc: L.append(pro if not is512 else '#ifdef __AVX512__\n%s\n#endif' % pro)
    L.append('}')
    for uid, is512, pro, body in orc: L.append(body if not is512 else '#ifdef __AVX512__\n%s\n#endif' % body)
    L.append('struct vf_entry { const char *uid; int (*fn)(int, vf_rng &); };\nstatic vf_entry TESTS[] = {')
    for uid, is512, pro, body in orc: L.append(('  {"%s", t_%s},' % (uid, uid)) if not is512 else '#ifdef __AVX512__\n  {"%s", t_%s},\n#endif' % (uid, uid))
    L.append('  {0, 0} };')
    open(os.path.join(HERE, 'oracle_gen.inc'), 'w').write('\n'.join(L) + '\n')
    print(len(table), 'overloads')
    from collections import Counter
    print(Counter(t['name'] for t in table))
