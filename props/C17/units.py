"""C17 - strided / offset / broadcast base-field wrappers and bulk copies move the right data."""
import os, sys, re, json, random
HERE = os.path.dirname(os.path.abspath(__file__))
sys.path.insert(0, os.path.dirname(os.path.dirname(HERE)))
sys.path.insert(0, HERE)
from vf.driver import Group, Unit, import_units, MachineryError, REPO
from vf import extract
import gen as _gen

PROPERTY = 'C17'
ORACLE_SCANS = True     # props/C17/oracle.cpp searches its own operand battery
NATIVE_FLAGS = ['-mavx2', '-mavx512f', '-D__AVX512__']
NATIVE_SOURCES = ['props/C17/wrappers.cpp']
LEVEL = 'proof'
TABLE = json.load(open(os.path.join(HERE, 'table.json')))
def _check_table():
    decls = _gen.declarations(open(os.path.join(REPO, 'src', 'goldilocks_base_field.hpp')).read())
    now = [(n, p) for n, p in decls]
    tab = [(t['name'], t['params']) for t in TABLE]
    if now != tab:
        raise extract.ExtractError('C17: the overload set declared in goldilocks_base_field.hpp differs from props/C17/table.json (%d vs %d); re-run props/C17/gen.py' % (len(now), len(tab)))
def filt_inl(repo_src, dst):
    _check_table()
    return extract.base_filter(repo_src, dst)
def filt_mul(repo_src, dst):
    _check_table()
    f = extract.base_filter(repo_src, dst)
    f.drop_function('goldilocks_base_field_scalar.hpp', 'Goldilocks::mul', ptypes=['Element&', 'const Element&', 'const Element&'], expect=1, rule='E-callee')
    f.drop_function('goldilocks_base_field_avx.hpp', 'Goldilocks::mult_avx', expect=1, rule='E-callee')
    f.drop_function('goldilocks_base_field_avx512.hpp', 'Goldilocks::mult_avx512', expect=1, rule='E-callee')
    return f
GROUPS = {
    'inl': Group('inl', filt_inl, cpp=['props/C17/wrappers.cpp'], c=['props/C17/contracts.c'], cxx_defines=['__AVX512__']),
    'mul': Group('mul', filt_mul, cpp=['props/C17/wrappers.cpp', 'props/C17/forwarders.cpp'], c=['props/C17/contracts.c'], defines=['VF_MULUNITS'], cxx_defines=['__AVX512__']),
}
for _p in (1, 2, 3, 4):
    GROUPS['inl_s%d' % _p] = Group('inl_s%d' % _p, filt_inl, cpp=['props/C17/wrappers.cpp'], c=['props/C17/contracts.c'], defines=['VF_SHAPE=%d' % _p], cxx_defines=['__AVX512__'])
    GROUPS['mul_s%d' % _p] = Group('mul_s%d' % _p, filt_mul, cpp=['props/C17/wrappers.cpp', 'props/C17/forwarders.cpp'], c=['props/C17/contracts.c'], defines=['VF_MULUNITS', 'VF_SHAPE=%d' % _p], cxx_defines=['__AVX512__'])
from vf import cify as _cify
DIVRULE = (r'\(size \+ num_threads_copy - 1\) / num_threads_copy', 'vf_udiv(size + num_threads_copy - 1, num_threads_copy)')
def filt_par(repo_src, dst):
    f = extract.Filter(repo_src, dst)
    f.check_macros()
    txt = _cify.cify(f, 'goldilocks_base_field.cpp', 'Goldilocks::parcpy', 'Goldilocks_parcpy', [], {0: 'LOOP_CONTRACT_PAR'}, extra_rules=[(r'\bElement\b', 'GElement'), DIVRULE])
    txt += _cify.cify(f, 'goldilocks_base_field.cpp', 'Goldilocks::parSetZero', 'Goldilocks_parSetZero', [], {0: 'LOOP_CONTRACT_PAR'}, extra_rules=[(r'\bElement\b', 'GElement'), DIVRULE])
    if txt.count('vf_udiv(') != 2:
        raise extract.ExtractError('M2-div: the division (size + num_threads_copy - 1) / num_threads_copy was not found exactly once in parcpy and parSetZero')
    f.files = {'gen_par.c': txt}
    return f
GROUPS['par'] = Group('par', filt_par, c=['props/C17/contracts_par.c'], repo_cpp=[])
H = 'src/goldilocks_base_field.hpp'
_seed = int(os.environ.get('VERIF_SEED', '0') or 0)
_rng = random.Random(_seed)
# quick tier: the fixed list props/C17/quick_ok.json (overloads whose units were measured to finish well inside the budget), thorough: everything
_qp = os.path.join(HERE, 'quick_ok.json')
_QOK = set(json.load(open(_qp))) if os.path.exists(_qp) else None
_quick = set(range(len(TABLE)))   # every overload is in the quick tier (stride-free ones outright, the others on shape 1)
UNITS = []
# add_batch(result, in1, in2, const uint64_t offsets2[4]) is declared in the header but defined nowhere in /repo/src (a call does not link;
# goto-instrument aborts on the body-less symbol): there is no code to put under contract
SKIP = {'g17_008_add_batch': 'declared in goldilocks_base_field.hpp, defined nowhere in /repo/src'}
for i, t in enumerate(TABLE):
    if t['uid'] in SKIP:
        continue
    mul = t['op'] == 'mul'
    g = 'mul' if mul else 'inl'
    common = dict(replace=(['w_mul_v', 'k_mult_avx', 'k_mult_avx512'] if mul else []), tier='quick' if i in _quick else 'thorough',
                  flags=['--unwind', '9', '--unwinding-assertions'], loops='unwind 9 (constant trip counts 4 / 8)',
                  functions=['Goldilocks::%s(%s) (%s)' % (t['name'], ', '.join(t['params']), H)], timeout=600)
    if t.get('has_idx') or t.get('has_stride'):
        # quick: shapes 1 and 3 ; thorough: all four concrete shapes, plus the fully symbolic unit for the stride-only overloads
        for _p in ((1, 2, 3) if t.get('has_idx') else (1, 2, 3, 4)):   # shape 4 (large) on index lists: up to 30 GB per solver, left out
            c2 = dict(common); c2['tier'] = common['tier'] if _p in ((1, 2, 3, 4) if os.environ.get('VF_C17_SURVEY') else (1,)) else 'thorough'; c2['timeout'] = 200 if os.environ.get('VF_C17_SURVEY') else 300
            UNITS.append(Unit('%s@shape%d' % (t['uid'], _p), '%s_s%d' % (g, _p), t['uid'], bounded='strides / index lists fixed to concrete shape %d of 4 (all operand values symbolic)' % _p, **c2))
        if not t.get('has_idx') and os.environ.get('VF_C17_SYMBOLIC'):
            # fully symbolic strides: 30-900 s and several GB per overload; opt-in (the sum exceeded this sandbox's memory when run with the rest)
            c3 = dict(common); c3['tier'] = 'thorough'; c3['timeout'] = 900
            UNITS.append(Unit(t['uid'], g, t['uid'], note='fully symbolic strides (<= 2^20)', **c3))
    else:
        UNITS.append(Unit(t['uid'], g, t['uid'], **common))
CHKP = ['--bounds-check', '--pointer-check', '--undefined-shift-check', '--signed-overflow-check', '--div-by-zero-check']
for _n in ('parcpy', 'parSetZero'):
    UNITS.append(Unit(_n, 'par', 'Goldilocks_' + _n, harness='hl_' + _n, light=True, loops='contract', checks=CHKP, timeout=900,
                      functions=['Goldilocks::%s (src/goldilocks_base_field.cpp) [C-ified, loop contract, ghost monitor of the chunk copies; all size <= 2^61, all int thread counts]' % _n]))
TRUSTED_BASE = ['the reading of each declaration (result first, stride / index list attached by parameter name) - validated by the proofs: a wrong reading fails on the unchanged tree',
                'caller-facing contracts of mul / mult_avx / mult_avx512 over the uninterpreted field product (C01, C02, C11)', 'L0 intrinsic table; CBMC C++ front end, dfcc, cadical']
ASSUMPTIONS = ['strides and index entries <= 2^20', 'result array disjoint from operand arrays; result positions pairwise distinct (stride_dst >= 1, distinct output indices)']
EXPLANATION = ('quick tier: all %d overloads (those with stride / index-list parameters on shape 1); thorough tier: all four shapes.  add_batch(result, in1, in2, offsets2[4]) is declared in the header but defined nowhere in /repo/src (a call does not link): no unit.  Overloads without stride / index-list parameters are proved outright; '
               'overloads with them are proved for all operand values on four concrete stride / index shapes (bounded in that dimension, listed under coverage.bounded).' % len(TABLE))
MANIFEST_ENTRY = dict(category='proof', technique='generated CBMC code contracts (one per overload, from the header declarations) with exact-extent operands and exact assigns sets',
    text='%d overloads of copy/add/sub/mul in the batch, AVX2 and AVX-512 helper families: lane k = op(k-th designated operands), frames exact, operands allocated at exactly the designated extent; all operand values, strides and index lists up to 2^20.' % len(TABLE),
    note='add_batch(.., offsets2[4]) is declared but never defined (no unit); quick tier: shape 1; strides / index lists: concrete shapes {1, 3, 0/2, 4099; reversed, spread, constant} (bounded); fully symbolic strides only with VF_C17_SYMBOLIC=1; aliasing of result and operands not covered.')
