/* C17 (bulk copies): parcpy / parSetZero transfer exactly `size` elements for every size and every int thread-count argument.
 * Route M2 (C-ified per run, src/gen_par.c) + loop contract; memcpy / memset are replaced by a GHOST MONITOR: call k must
 * move the chunk [next, next + len) of the destination (from the same chunk of the source), len = min(chunk, size - next);
 * after the call next == size.  dst / src are abstract zero-size objects: any direct access is a pointer failure. */
#include "spec.h"
#define VF_SENTINEL __CPROVER_assert(0, "vf_sentinel: harness reaches the point after the call")
typedef unsigned long uint64_t;
typedef unsigned long size_t;
typedef struct { uint64_t fe; } GElement;
/* AXIOM(c-division): unsigned 64-bit division is not given to the solver (no back end here decides division facts); the
 * quotient is an uninterpreted function of (x, y) with the three consequences of q = floor(x / y) that the argument needs.
 * Rule M2-div rewrites the one division of each function, `(size + num_threads_copy - 1) / num_threads_copy`, into vf_udiv(..). */
uint64_t __CPROVER_uninterpreted_udiv(uint64_t, uint64_t);
static uint64_t vf_udiv(uint64_t x, uint64_t y)
{
  __CPROVER_assert(y != 0, "division by zero");
  uint64_t q = __CPROVER_uninterpreted_udiv(x, y);
  __CPROVER_assume(q <= x);                          /* AXIOM(c-division): x / y <= x            */
  __CPROVER_assume(x < y ? q == 0 : q >= 1);         /* AXIOM(c-division): x / y >= 1 iff x >= y */
  __CPROVER_assume(y != 1 || q == x);                /* AXIOM(c-division): x / 1 == x            */
  return q;
}
const GElement *g_dst, *g_src; uint64_t g_size, g_next, g_chunk; _Bool g_bad, g_is_set;
static void monitor(const void *d, const void *s, size_t n)
{
  uint64_t len = g_size - g_next < g_chunk ? g_size - g_next : g_chunk;
  if (g_next >= g_size || len == 0 || n != 8 * len) g_bad = 1;
  if (!__CPROVER_same_object(d, g_dst) || (uint64_t)__CPROVER_POINTER_OFFSET(d) != 8 * g_next) g_bad = 1;
  if (!g_is_set && (!__CPROVER_same_object(s, g_src) || (uint64_t)__CPROVER_POINTER_OFFSET(s) != 8 * g_next)) g_bad = 1;
  g_next += len;
}
static void vf_memcpy(GElement *d, const GElement *s, size_t n) { monitor(d, s, n); }
static void vf_memset(GElement *d, int c, size_t n) { if (c != 0) g_bad = 1; monitor(d, 0, n); }
#define LOOP_CONTRACT_PAR \
  __CPROVER_assigns(i, g_next, g_bad) \
  __CPROVER_loop_invariant(!g_bad && components_thread == g_chunk && (size == 0 || g_chunk >= 1) && g_next == (i < size ? i : size)) \
  __CPROVER_decreases(size - (i < size ? i : size))
#include "gen_par.c"
#define MAXSIZE (1UL << 61)
void hl_parcpy(void)
{
  uint64_t size; int nt; __CPROVER_assume(size <= MAXSIZE); uint64_t vf_insize = size; long vf_innt = nt; (void)vf_insize; (void)vf_innt;
  GElement *dst = (GElement *)__CPROVER_allocate(0, 0), *src = (GElement *)__CPROVER_allocate(0, 0);
  uint64_t n = nt < 1 ? 1 : (uint64_t)nt;
  g_dst = dst; g_src = src; g_size = size; g_next = 0; g_bad = 0; g_is_set = 0; g_chunk = vf_udiv(size + n - 1, n);
  Goldilocks_parcpy(dst, src, size, nt);
  __CPROVER_assert(!g_bad, "parcpy.postcondition.1 (light): every memcpy moves the next chunk of at most ceil(size/threads) elements, same offsets in dst and src");
  __CPROVER_assert(g_next == size, "parcpy.postcondition.2 (light): exactly size elements are transferred");
  VF_SENTINEL;
}
void hl_parSetZero(void)
{
  uint64_t size; int nt; __CPROVER_assume(size <= MAXSIZE); uint64_t vf_insize = size; long vf_innt = nt; (void)vf_insize; (void)vf_innt;
  GElement *dst = (GElement *)__CPROVER_allocate(0, 0);
  uint64_t n = nt < 1 ? 1 : (uint64_t)nt;
  g_dst = dst; g_src = 0; g_size = size; g_next = 0; g_bad = 0; g_is_set = 1; g_chunk = vf_udiv(size + n - 1, n);
  Goldilocks_parSetZero(dst, size, nt);
  __CPROVER_assert(!g_bad, "parSetZero.postcondition.1 (light): every memset zeroes the next chunk of at most ceil(size/threads) elements");
  __CPROVER_assert(g_next == size, "parSetZero.postcondition.2 (light): exactly size elements are zeroed");
  VF_SENTINEL;
}
