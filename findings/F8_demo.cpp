// F8: spmv_avx512_4x12 / mmult_avx512_4x12(_8) chained possibly non-canonical products through add_avx512_b_c.
// 3 * 0x5555555555555555 = 2^64-1 is returned by mult_avx512 as a representation in [p, 2^64).
#include "goldilocks_base_field.hpp"
#include <cstdio>
typedef unsigned __int128 u128;
static const uint64_t PP = 0xFFFFFFFF00000001ULL;
int main()
{
    alignas(64) Goldilocks::Element a0[8], a1[8], a2[8], b[12], c[8];
    for (int i = 0; i < 8; i++) { a0[i].fe = a1[i].fe = a2[i].fe = 0x5555555555555555ULL; }
    for (int i = 0; i < 12; i++) b[i].fe = 3;
    __m512i v0, v1, v2, vc;
    Goldilocks::load_avx512(v0, a0); Goldilocks::load_avx512(v1, a1); Goldilocks::load_avx512(v2, a2);
    Goldilocks::spmv_avx512_4x12(vc, v0, v1, v2, b);
    Goldilocks::store_avx512(c, vc);
    uint64_t want = (uint64_t)((3 * ((u128)(0x5555555555555555ULL % PP) * 3 % PP)) % PP);
    int bad = 0;
    for (int i = 0; i < 8; i++) if (c[i].fe % PP != want) { printf("lane %d: got %llu (canonical %llu) want %llu\n", i, (unsigned long long)c[i].fe, (unsigned long long)(c[i].fe % PP), (unsigned long long)want); bad = 1; }
    puts(bad ? "FAIL" : "PASS");
    return bad;
}
