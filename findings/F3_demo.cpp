// F3 (known finding, not repaired): extendPol in place with an even clamped phase count reaches the unimplemented
// "in-place bit reversal with extension > 1" branch of reversePermutation and aborts at assert(0).
#include "ntt_goldilocks.hpp"
#include <cstdio>
int main()
{
    NTT_Goldilocks ntt(2);
    Goldilocks::Element a[4];
    a[0] = Goldilocks::fromU64(3); a[1] = Goldilocks::fromU64(5);
    ntt.extendPol(a, a, 4, 2, 1);     // N_Extended = 4, N = 2, one column, default nphase = 3 -> clamped to 2 (even)
    puts("PASS (returned)");
    return 0;
}
