// F1: a transform smaller than the object's domain: NTT_Goldilocks n(16); n.NTT(dst, src, 4) aborts at assert(0)
// (the pass schedule is derived from the object's s instead of log2(size)).  Also checks the result against a direct DFT.
#include "ntt_goldilocks.hpp"
#include <cstdio>
typedef unsigned __int128 u128;
static const uint64_t PP = 0xFFFFFFFF00000001ULL;
static uint64_t mulm(uint64_t a, uint64_t b) { return (uint64_t)((u128)a * b % PP); }
int main()
{
    int bad = 0;
    for (uint64_t maxd = 4; maxd <= 64; maxd <<= 1) for (uint64_t n = 1; n <= maxd; n <<= 1) for (uint64_t nphase = 1; nphase <= 4; nphase++) {
        NTT_Goldilocks ntt(maxd);
        Goldilocks::Element a[64], b[64];
        for (uint64_t i = 0; i < n; i++) a[i] = Goldilocks::fromU64(i * 7 + 3);
        ntt.NTT(b, a, n, 1, NULL, nphase);
        uint64_t lg = 0; while ((1ULL << lg) < n) lg++;
        uint64_t w = Goldilocks::toU64(Goldilocks::w(lg));
        for (uint64_t k = 0; k < n; k++) { uint64_t acc = 0, wk = 1, wjk = 1; for (uint64_t t = 0; t < k; t++) wk = mulm(wk, w);
            for (uint64_t j = 0; j < n; j++) { acc = (uint64_t)(((u128)acc + mulm(Goldilocks::toU64(a[j]), wjk)) % PP); wjk = mulm(wjk, wk); }
            if (Goldilocks::toU64(b[k]) != acc) { bad = 1; printf("maxDomain %llu n %llu nphase %llu: out[%llu] wrong\n", (unsigned long long)maxd, (unsigned long long)n, (unsigned long long)nphase, (unsigned long long)k); break; } }
    }
    puts(bad ? "FAIL" : "PASS");
    return bad;
}
