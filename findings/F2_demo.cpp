// F2: NTT with a NULL destination and more than one column block: the block scatter writes through the NULL dst.
#include "ntt_goldilocks.hpp"
#include <cstdio>
int main()
{
    NTT_Goldilocks ntt(4);
    Goldilocks::Element a[8], ref[8];
    for (int i = 0; i < 8; i++) a[i] = ref[i] = Goldilocks::fromU64(3 * i + 1);
    ntt.NTT(ref, ref, 4, 2, NULL, 3, 1);          // in place, one block
    ntt.NTT(NULL, a, 4, 2, NULL, 3, 2);           // NULL destination (= in place), two blocks
    int bad = 0; for (int i = 0; i < 8; i++) if (Goldilocks::toU64(a[i]) != Goldilocks::toU64(ref[i])) bad = 1;
    puts(bad ? "FAIL" : "PASS"); return bad;
}
