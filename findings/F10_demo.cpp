// F10: merkletree_avx512 / merkletree_batch_avx512 with num_rows == 1 hash two rows per call: they read row 1 of a 1-row
// input and write 8 elements into the 4-element tree.  Build with -fsanitize=address -mavx512f -D__AVX512__.
#include "poseidon_goldilocks.hpp"
#include "merklehash_goldilocks.hpp"
#include <cstdio>
int main(int argc, char **argv)
{
    uint64_t cols = 5, rows = 1;
    Goldilocks::Element *in = new Goldilocks::Element[cols * rows];
    for (uint64_t i = 0; i < cols * rows; i++) in[i] = Goldilocks::fromU64(i + 1);
    uint64_t n = MerklehashGoldilocks::getTreeNumElements(rows);   // 4
    Goldilocks::Element *tree = new Goldilocks::Element[n], *ref = new Goldilocks::Element[n];
    if (argc > 1) PoseidonGoldilocks::merkletree_batch_seq(ref, in, cols, rows, 2); else PoseidonGoldilocks::merkletree_seq(ref, in, cols, rows);
    if (argc > 1) PoseidonGoldilocks::merkletree_batch_avx512(tree, in, cols, rows, 2); else PoseidonGoldilocks::merkletree_avx512(tree, in, cols, rows);
    int bad = 0; for (uint64_t k = 0; k < n; k++) if (Goldilocks::toU64(tree[k]) != Goldilocks::toU64(ref[k])) bad = 1;
    puts(bad ? "FAIL (different tree)" : "PASS");
    return bad;
}
