// F4: extendPol caches the coset table r_ for the first N only: a second call with another N on the same object differs from a fresh object.
// F9: r / r_ come from new[] but the destructor used delete (checked by ASan: alloc-dealloc-mismatch).
#include "ntt_goldilocks.hpp"
#include <cstdio>
int main()
{
    Goldilocks::Element a[8 * 1], b[8 * 1], c[8 * 1];
    NTT_Goldilocks shared(8);
    for (int i = 0; i < 4; i++) a[i] = Goldilocks::fromU64(i + 2);
    shared.extendPol(a, a, 8, 4, 1);                     // first call: N = 4
    for (int i = 0; i < 2; i++) b[i] = c[i] = Goldilocks::fromU64(5 * i + 1);
    shared.extendPol(b, b, 8, 2, 1);                     // second call on the same object: N = 2
    { NTT_Goldilocks fresh(8); fresh.extendPol(c, c, 8, 2, 1); }
    int bad = 0; for (int i = 0; i < 8; i++) if (Goldilocks::toU64(b[i]) != Goldilocks::toU64(c[i])) bad = 1;
    puts(bad ? "FAIL" : "PASS"); return bad;
}
