/-
Algebraic layer (A) of the goldilocks verification: the identities that turn the exact expression DAGs proved by CBMC
(over an uninterpreted field product) into the mathematical statements of the properties.
Checked by `lean` (Lean 4 + Mathlib) from the driver; every theorem is referenced by name in the evidence.
-/
import Mathlib.Tactic

namespace Goldilocks

/-- p = 2^64 - 2^32 + 1 -/
def P : ℤ := 18446744069414584321

theorem p_def : P = 2 ^ 64 - 2 ^ 32 + 1 := by norm_num [P]

/-- C01/C02/C11/C20: the reduction target T = lo + hl*(2^32-1) - hh is congruent to the 128-bit value (hh*2^32+hl)*2^64 + lo:
    the difference is a multiple of p (same identity as the CBMC unit lemma_reduce_congruence). -/
theorem reduce_congruence (hh hl lo : ℤ) :
    (hh * 2 ^ 32 + hl) * 2 ^ 64 + lo = (lo + hl * (2 ^ 32 - 1) - hh) + P * (hl + hh * (2 ^ 32 + 1)) := by
  simp only [P]; ring

/-- C02/C11/C20: school-book recombination of the four 32x32 partial products is the 64x64 product. -/
theorem schoolbook (ah al bh bl : ℤ) :
    (ah * 2 ^ 32 + al) * (bh * 2 ^ 32 + bl) = ah * bh * 2 ^ 64 + (ah * bl + al * bh) * 2 ^ 32 + al * bl := by ring

/-- squaring variant used by square_avx_128: 2*(al*ah) shifted by 32 = (al*ah) shifted by 33 -/
theorem schoolbook_sq (ah al : ℤ) :
    (ah * 2 ^ 32 + al) * (ah * 2 ^ 32 + al) = ah * ah * 2 ^ 64 + (al * ah) * 2 ^ 33 + al * al := by ring

/-- C13/C14: 2^64 ≡ 2^32 - 1 (mod p): a 72-bit product h*2^64 + l contributes l + h*(2^32-1). -/
theorem dot8_term (h l : ℤ) : h * 2 ^ 64 + l = (l + h * (2 ^ 32 - 1)) + P * h := by
  simp only [P]; ring

variable {R : Type*} [CommRing R]

/-- C09: the Karatsuba DAG of Goldilocks3::mul is the product in R[x]/(x^3 - x - 1)
    (school-book coefficients c0..c4 folded with x^3 = x + 1, x^4 = x^2 + x). -/
theorem cubic_mul (a0 a1 a2 b0 b1 b2 : R) :
    let A := (a0 + a1) * (b0 + b1); let B := (a0 + a2) * (b0 + b2); let C := (a1 + a2) * (b1 + b2)
    let D := a0 * b0; let E := a1 * b1; let F := a2 * b2; let G := D - E
    ((C + G) - F = a0 * b0 + (a1 * b2 + a2 * b1)) ∧
    (((((A + C) - E) - E) - D) = (a0 * b1 + a1 * b0) + (a1 * b2 + a2 * b1) + a2 * b2) ∧
    (B - G = (a0 * b2 + a1 * b1 + a2 * b0) + a2 * b2) := by
  refine ⟨?_, ?_, ?_⟩ <;> ring

/-- C16: the vector kernels group the subtractions of the middle coefficient: (A + C) - ((E + E) + D) is the same value. -/
theorem cubic_mul_r1 (A C D E : R) : (A + C) - ((E + E) + D) = ((((A + C) - E) - E) - D) := by ring

/-- C16: mixed shapes are the embedding of the base field: (a,0,0) * (b0,b1,b2) = (a*b0, a*b1, a*b2) and
    (a,0,0) ± (b0,b1,b2) touches coefficient 0 only - instances of cubic_mul with a1 = a2 = 0. -/
theorem cubic_mul_base (a b0 b1 b2 : R) :
    (a * b0 + (0 * b2 + 0 * b1) = a * b0) ∧ ((a * b1 + 0 * b0) + (0 * b2 + 0 * b1) + 0 * b2 = a * b1) ∧
    ((a * b2 + 0 * b1 + 0 * b0) + 0 * b2 = a * b2) := by
  refine ⟨?_, ?_, ?_⟩ <;> ring

/-- C09: cofactors of Goldilocks3::inv: a * (c0, c1, c2) = (t, 0, 0) in R[x]/(x^3 - x - 1); hence a * (c * t⁻¹) = 1 when t is invertible. -/
theorem cubic_inv (a b c : R) :
    let aa := a * a; let ac := a * c; let ba := b * a; let bb := b * b; let bc := b * c; let cc := c * c
    let t := ba * c + ba * c + ba * c + ba * b - aa * a - aa * c - aa * c - ac * c - bb * b + bc * c - cc * c
    let i1 := bc + bb - aa - ac - ac - cc; let i2 := ba - cc; let i3 := ac + cc - bb
    -- product (a + b x + c x^2) * (i1 + i2 x + i3 x^2), reduced by x^3 = x + 1, x^4 = x^2 + x, equals t (the norm)
    (a * i1 + (b * i3 + c * i2) = t) ∧
    ((a * i2 + b * i1) + (b * i3 + c * i2) + c * i3 = 0) ∧
    ((a * i3 + b * i2 + c * i1) + c * i3 = 0) := by
  refine ⟨?_, ?_, ?_⟩ <;> ring

/-- C10: right-to-left square-and-multiply.  `powAux R B e` is the recurrence of the ghost monitor:
    for each bit of e (least significant first): if set R := R*B; then B := B*B. -/
def powAux {M : Type*} [Monoid M] : M → M → ℕ → ℕ → M
  | r, _, _, 0 => r
  | r, b, e, (fuel + 1) => powAux (if e % 2 = 1 then r * b else r) (b * b) (e / 2) fuel

theorem powAux_eq {M : Type*} [CommMonoid M] (r b : M) (e fuel : ℕ) (h : e < 2 ^ fuel) :
    powAux r b e fuel = r * b ^ e := by
  induction fuel generalizing r b e with
  | zero =>
    have : e = 0 := by simpa using h
    simp [powAux, this]
  | succ n ih =>
    have h2 : e / 2 < 2 ^ n := by
      have : e < 2 * 2 ^ n := by simpa [pow_succ, mul_comm] using h
      omega
    rw [powAux, ih _ _ _ h2]
    have hb : (b * b) ^ (e / 2) = b ^ (2 * (e / 2)) := by rw [pow_mul, pow_two]
    rcases Nat.mod_two_eq_zero_or_one e with h0 | h1
    · have he : 2 * (e / 2) = e := by omega
      simp [h0, hb, he]
    · have he : 2 * (e / 2) + 1 = e := by omega
      simp only [h1, if_true, hb]
      rw [mul_assoc, ← pow_succ', he]

/-- C10: exp(b, e) for a 64-bit exponent: the recurrence started at 1 is b^e (e = 0 gives 1). -/
theorem pow_binary {M : Type*} [CommMonoid M] (b : M) (e : ℕ) (h : e < 2 ^ 64) : powAux 1 b e 64 = b ^ e := by
  simpa using powAux_eq 1 b e 64 h

/-- C09: one back-substitution step of batch inversion in a field: if z is the inverse of the prefix product P_prev * s, then
    z * P_prev is the inverse of s (the element delivered) and z * s is the inverse of P_prev (the invariant for the next step). -/
theorem batch_inverse_step {K : Type*} [Field K] (Pprev s z : K) (hs : s ≠ 0) (hP : Pprev ≠ 0) (hz : z = (Pprev * s)⁻¹) :
    z * Pprev = s⁻¹ ∧ z * s = Pprev⁻¹ := by
  subst hz
  constructor <;> field_simp

/-- C10: one extended-Euclid step in field terms preserves the Bezout invariants  t*a = r  and  newt*a = newr. -/
theorem euclid_step (a t r newt newr q : R) (h1 : t * a = r) (h2 : newt * a = newr) :
    newt * a = newr ∧ (t - q * newt) * a = r - q * newr := by
  refine ⟨h2, ?_⟩
  rw [sub_mul, mul_assoc, h1, h2]

/-- C13/C14/C06: association orders used by the kernels are the plain sum. -/
theorem sumtree3 (x y z : R) : (x + y) + z = x + y + z := by ring
theorem sumtree4 (x y z w : R) : (x + y) + (z + w) = x + y + z + w := by ring

/-- C01: uniqueness of the canonical residue: two integers in [0,p) that differ by a multiple of p are equal. -/
theorem canon_unique (r v k : ℤ) (hr0 : 0 ≤ r) (hr : r < P) (hv0 : 0 ≤ v) (hv : v < P) (h : r = v + k * P) : r = v := by
  have hP : (0 : ℤ) < P := by norm_num [P]
  have hk : k = 0 := by
    by_contra hne
    rcases lt_or_gt_of_ne hne with hlt | hgt
    · have : k * P ≤ -P := by nlinarith
      linarith
    · have : P ≤ k * P := by nlinarith
      linarith
  simp [hk] at h; exact h

end Goldilocks
