/* Spec vocabulary shared by all contracts (C, CBMC).  No multiplication, no % anywhere:
 * every spec function is add/compare/shift only; field multiplication is uninterpreted. */
#ifndef VF_SPEC_H
#define VF_SPEC_H
typedef unsigned long u64;
typedef unsigned int u32;
typedef long s64;
typedef unsigned __int128 u128;
typedef __int128 s128;
#define GP 0xFFFFFFFF00000001UL
#define GPN 0xFFFFFFFFUL /* 2^64 - p */

#ifdef VF_UF_ADDSUB
/* structural units: canon / MUL / INV are macros, so that syntactically equal spec sub-terms are ONE expression for CBMC
 * (one circuit, one uninterpreted-function application) instead of one copy per textual occurrence */
#define canon(x) ((u64)(x) >= GP ? (u64)(x) - GP : (u64)(x))
#else
static inline u64 canon(u64 x) { return x >= GP ? x - GP : x; }
#endif
/* x,y canonical */
#ifdef VF_UF_ADDSUB
/* Layer-2 units whose obligations are structural (the code applies the field operations in the order the spec DAG does)
 * do not unfold the definitions of addmod / submod: they are uninterpreted functions of the canonical operands, and every
 * obligation becomes a congruence-closure fact.  Sound: what holds for every interpretation holds for the defined one.
 * The callee contracts of add/sub are assumed in the same form and carry the commutativity instance ADDC. */
u64 __CPROVER_uninterpreted_addmod(u64, u64);
u64 __CPROVER_uninterpreted_submod(u64, u64);
#define addmod(x, y) __CPROVER_uninterpreted_addmod(x, y)
#define submod(x, y) __CPROVER_uninterpreted_submod(x, y)
#define negmod(x) __CPROVER_uninterpreted_submod((u64)0, x)
#define ADDC(x, y) (addmod(x, y) == addmod(y, x))
#else
static inline u64 addmod(u64 x, u64 y) { u128 s = (u128)x + (u128)y; return (u64)(s >= GP ? s - GP : s); }
static inline u64 submod(u64 x, u64 y) { return x >= y ? x - y : (u64)((u128)x + GP - y); }
static inline u64 negmod(u64 x) { return x == 0 ? 0 : GP - x; }
#define ADDC(x, y) 1
#endif

/* field multiplication of canonical values: an uninterpreted function of the ORDERED pair of canonical operands.
 * Commutativity is not built into the term (min/max muxes made every obligation 3-4x slower); it is supplied as an
 * instantiated axiom MULC(x,y) : MUL(x,y) == MUL(y,x) in the assumed postcondition of every multiplication kernel, i.e.
 * exactly at the applications the code makes - true of the real product, so the abstraction stays sound, and a kernel that
 * swaps the operands of a product still verifies. */
u64 __CPROVER_uninterpreted_mulmod(u64, u64);
#ifdef VF_UF_ADDSUB
#define MUL(x, y) __CPROVER_uninterpreted_mulmod(canon(x), canon(y))
#define MULK(x, y) __CPROVER_uninterpreted_mulmod(x, y)   /* operands already canonical spec terms */
#else
#define MULK(x, y) MUL(x, y)
static inline u64 MUL(u64 x, u64 y) /* no call to another spec function inside (dfcc restriction) */
{ u64 a = x >= GP ? x - GP : x, b = y >= GP ? y - GP : y; return __CPROVER_uninterpreted_mulmod(a, b); }
#endif
#define MULC(x, y) (MUL(x, y) == MUL(y, x))

/* reduction target of a 128-bit value hi:lo :  T = lo + hi_lo*(2^32-1) - hi_hi   (signed 128-bit, shifts only) */
static inline s128 redT(u64 hi, u64 lo)
{ s128 hl = (s128)(hi & 0xFFFFFFFFUL); s128 hh = (s128)(hi >> 32); return (s128)lo + ((hl << 32) - hl) - hh; }
/* r is a representation of the residue of hi:lo, witnessed linearly: r = T + k*p for a small k */
static inline _Bool repr_of_T(u64 r, s128 T)
{ s128 R = (s128)r, Pp = (s128)GP;
  return R == T + Pp || R == T || R == T - Pp || R == T - 2 * Pp; }
#endif
